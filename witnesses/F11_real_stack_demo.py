"""F11 demonstration on the real stack (real TCP, real autobahn protocols, no harness):
a subscriber whose connection is in the closing handshake makes ANOTHER client's `add` fail
inside the server and gets that client's connection dropped.

usage: PYTHONPATH=<tree>/src python demo.py   -> exit 0 if the adder survives, 1 if it is dropped
"""
import base64, json, os, socket, struct, sys, threading, time

from twisted.internet import reactor, endpoints
from wormhole_mailbox_server.database import create_channel_db
from wormhole_mailbox_server.server import make_server
from wormhole_mailbox_server.web import make_web_server

port_box = []


def start():
    db = create_channel_db(":memory:")
    server = make_server(db)
    site = make_web_server(server, log_requests=False)
    ep = endpoints.TCP4ServerEndpoint(reactor, 0, interface="127.0.0.1")
    d = ep.listen(site)
    d.addCallback(lambda lp: port_box.append(lp.getHost().port))


class WS(object):
    def __init__(self, port):
        self.s = socket.create_connection(("127.0.0.1", port))
        key = base64.b64encode(os.urandom(16)).decode()
        self.s.sendall(("GET /v1 HTTP/1.1\r\nHost: 127.0.0.1:%d\r\nUpgrade: websocket\r\nConnection: Upgrade\r\n"
                        "Sec-WebSocket-Key: %s\r\nSec-WebSocket-Version: 13\r\n\r\n" % (port, key)).encode())
        buf = b""
        while b"\r\n\r\n" not in buf:
            buf += self.s.recv(4096)
        assert b" 101 " in buf.split(b"\r\n")[0], buf
        self.buf = buf.split(b"\r\n\r\n", 1)[1]
        self.s.settimeout(2.0)

    def send_raw(self, opcode, payload):
        mask = os.urandom(4)
        n = len(payload)
        hdr = bytes([0x80 | opcode])
        hdr += bytes([0x80 | n]) if n < 126 else bytes([0x80 | 126]) + struct.pack(">H", n)
        self.s.sendall(hdr + mask + bytes(b ^ mask[i % 4] for i, b in enumerate(payload)))

    def send(self, **kw):
        self.send_raw(1, json.dumps(kw).encode())

    def frames(self, wait=0.6):
        """everything the server sent within `wait` seconds: list of (opcode, payload); ('EOF', b'') when it hung up"""
        out = []
        end = time.time() + wait
        while time.time() < end:
            try:
                self.s.settimeout(max(0.05, end - time.time()))
                d = self.s.recv(65536)
                if not d:
                    out.append(("EOF", b""))
                    break
                self.buf += d
            except socket.timeout:
                break
            except ConnectionError:
                out.append(("EOF", b""))
                break
        while len(self.buf) >= 2:
            op, n, off = self.buf[0] & 0x0f, self.buf[1] & 0x7f, 2
            if n == 126:
                if len(self.buf) < 4:
                    break
                n, off = struct.unpack(">H", self.buf[2:4])[0], 4
            if len(self.buf) < off + n:
                break
            out.append((op, self.buf[off:off + n]))
            self.buf = self.buf[off + n:]
        return out


def texts(frs):
    return [json.loads(p.decode())["type"] for (op, p) in frs if op == 1]


def main():
    reactor.callWhenRunning(start)
    t = threading.Thread(target=lambda: reactor.run(installSignalHandlers=False), daemon=True)
    t.start()
    while not port_box:
        time.sleep(0.05)
    port = port_box[0]
    dropped_any = False
    for attempt in range(40):
        a, b = WS(port), WS(port)
        a.frames(0.2); b.frames(0.2)
        mb = "mb%d" % attempt
        a.send(type="bind", appid="app", side="A"); a.send(type="open", mailbox=mb)
        b.send(type="bind", appid="app", side="B"); b.send(type="open", mailbox=mb)
        a.frames(0.2); b.frames(0.2)
        # B says goodbye (a Close frame) at the same moment at which A adds a message: when the server
        # reads both in one reactor iteration, B's protocol is in its closing handshake (its
        # connectionLost / onClose comes an iteration later) while A's add is broadcast
        b.send_raw(8, struct.pack(">H", 1000))
        a.send(type="add", phase="p1", body="00")
        fa = a.frames(0.4)
        dropped = any(op in ("EOF", 8) for (op, p) in fa)
        if not dropped:
            a.send(type="ping", ping=7)
            fa2 = a.frames(0.3)
            dropped = any(op in ("EOF", 8) for (op, p) in fa2) or "pong" not in texts(fa2)
        print("attempt", attempt, "adder saw:", texts(fa), "| adder dropped:", dropped)
        try:
            a.s.close(); b.s.close()
        except Exception:
            pass
        if dropped:
            dropped_any = True
            break
    dropped = dropped_any
    reactor.callFromThread(reactor.stop)
    return 1 if dropped else 0


if __name__ == "__main__":
    sys.exit(main())
