"""Write recorded observations as ndjson and have TLC judge them
(spec/TraceCheck.tla: conformance + property monitors)."""
import json, os, subprocess, tempfile, shutil, time, re

SPEC_DIR = os.path.join(os.path.dirname(os.path.dirname(os.path.dirname(os.path.abspath(__file__)))), "spec")
JAVA = ["java", "-Xss16m", "-cp",
        "/opt/veriftools/tla/tla2tools.jar:/opt/veriftools/tla/CommunityModules-deps.jar",
        "-DTLA-Library=" + SPEC_DIR]

ALL_PROPS = ["C01.a", "C01.b", "C02.a", "C02.b", "C03.a", "C03.b", "C03.c", "C03.d",
             "C04.a", "C04.b", "C04.c", "C05.a", "C05.b", "C05.c", "C05.keep", "C06.frame", "C06.bind",
             "C07.a", "C07.b", "C07.c", "C07.d", "C07.e", "C08.a", "C08.b", "C08.c", "C08.d", "C08.e",
             "C09.a", "C09.b", "C10.a", "C10.b", "C10.c", "C12.a", "C12.b", "C12.c",
             "C13.a", "C13.b", "C13.c", "C15.a", "C15.b", "C15.c", "C16.a", "C16.b", "C16.c",
             "C17.a", "C17.b", "C17.c", "C17.d", "C17.e", "C17.f", "C17.g", "C18.a"]


def line_of(o):
    d = dict(tid=o["tid"], i=o["i"], e=o["e"], out=o["out"], err=o["err"], tr=o["tr"],
             db=o["db"], udb=o["udb"], now=o["now"], hid=o["hid"], pre=o.get("pre") or {})
    return d


def tla_set(xs):
    return "{" + ", ".join(json.dumps(x) for x in sorted(xs)) + "}"


def write_module(path, name, consts):
    """consts: dict of TLA+ constant name -> TLA+ expression text."""
    defs = "\n".join("c%s == %s" % (k, v) for k, v in consts.items())
    with open(os.path.join(path, name + ".tla"), "w") as f:
        f.write("---- MODULE %s ----\nEXTENDS TraceCheck\n%s\n====\n" % (name, defs))
    with open(os.path.join(path, name + ".cfg"), "w") as f:
        f.write("SPECIFICATION TSpec\nCONSTANTS\n")
        for k in consts:
            f.write("  %s <- c%s\n" % (k, k))
        f.write("CHECK_DEADLOCK FALSE\n")


def batch_consts(cfg_key, conns, long_names, props, stringified=()):
    allow, usage, blur, welcome, exp, period = cfg_key
    return {
        "Apps": '{"a1", "a2", "a3"}', "AppOrder": '<<"a1", "a2", "a3">>',
        "Sides": '{"s1", "s2", "s3", "s4"}', "Conns": tla_set(conns),
        "Class1": "{ToString(i) : i \\in 1..9}", "Class2": "{ToString(i) : i \\in 10..99}",
        "Class3": "{ToString(i) : i \\in 100..999}", "LongNames": tla_set(long_names),
        "OtherNames": "{}", "ClientMbox": '{"m1", "m2"}',
        "GenMbox": '[k \\in 1..5000 |-> "g" \\o ToString(k)]',
        "EXP": str(exp), "PERIOD": str(period),
        "AllowList": "TRUE" if allow else "FALSE", "UsageOn": "TRUE" if usage else "FALSE",
        "Blur": str(blur), "Welcome": json.dumps(welcome), "PropIds": tla_set(props),
        "Stringified": tla_set(stringified), "BadMoods": '{"#[1]", "#{}"}',
    }


def long_names_of(lines):
    r = set()
    for ln in lines:
        for f in ln["out"]:
            n = f.get("nameplate", "~")
            if f["type"] == "allocated" and n.isascii() and n.isdigit() and len(n) >= 4 and len(n) <= 6 and str(int(n)) == n:
                r.add(n)
    return r


def check_batch(lines, cfg_key, conns, props, workdir, tag, keep=False):
    """Run TLC on one batch (all lines share cfg_key). Returns (verdicts, stats)."""
    os.makedirs(workdir, exist_ok=True)
    tf = os.path.join(workdir, tag + ".ndjson")
    of = os.path.join(workdir, tag + ".out.json")
    with open(tf, "w") as f:
        for ln in lines:
            f.write(json.dumps(ln, separators=(",", ":")) + "\n")
    strs = {f[k] for ln in lines for f in ln["out"] if f["type"] == "message"
            for k in ("phase", "body", "id") if isinstance(f[k], str) and f[k].startswith("$")}
    write_module(workdir, "TC_" + tag, batch_consts(cfg_key, conns, long_names_of(lines), props, strs))
    env = dict(os.environ, MBH_TRACE=tf, MBH_OUT=of)
    t0 = time.monotonic()
    cmd = JAVA[:1] + ["-XX:+UseSerialGC", "-Xmx3g"] + JAVA[1:] + ["tlc2.TLC", "-workers", "1", "-metadir", os.path.join(workdir, "meta_" + tag),
                  "-noGenerateSpecTE", "-config", "TC_%s.cfg" % tag, "TC_%s.tla" % tag]
    pr = subprocess.run(cmd, cwd=workdir, env=env, stdout=subprocess.PIPE, stderr=subprocess.STDOUT, text=True)
    wall = time.monotonic() - t0
    ok = os.path.exists(of)
    if not ok:
        i = pr.stdout.find("Error:")
        msg = pr.stdout[i:i + 1500] if i >= 0 else ""
        j = pr.stdout.find("The error occurred when TLC was evaluating")
        return None, dict(wall=wall, log=(msg + "\n...\n" + (pr.stdout[j:j + 2500] if j >= 0 else pr.stdout[-2500:])))
    with open(of) as f:
        out = json.load(f)
    m = re.search(r"(\d+) states generated, (\d+) distinct states", pr.stdout)
    stats = dict(wall=wall, lines=out["lines"], states=int(m.group(2)) if m else 0, cnt=out.get("cnt", {}))
    if not keep:
        shutil.rmtree(os.path.join(workdir, "meta_" + tag), ignore_errors=True)
    return out["res"], stats
