"""Random history generators: drive the real code with abstract events.

A generator looks at the driver's state only to choose *what to try next*
(which connections are up, which mailbox ids the clients have learnt); it
never judges anything.
"""
import random
from .driver import ABSENT, ev0, msg0, Tokens

MOODS = ["happy", "lonely", "errory", "scary", "weird", "", ABSENT]

WEIRD = ["", " ", "\u0000", "‮abc", "\U0001F600", "a" * 300, "0", "00", "-1", "1e3",
         "null", "é", "é", "'; DROP TABLE nameplates;--", "%s", "\\", "\"", "~~",
         "퟿", "￿", "\t\n", "1.0", "١",
         # str.isdigit() / str.isnumeric() accept these, int() does not (or reads another number)
         "²", "①", "1²", "٣٤"]


def make_tokens(rng, profile):
    """Injective token table with awkward concrete strings.  App ids keep the
    order a1 < a2 < a3 under Python's sorted()."""
    T = Tokens()
    plain = profile.get("plain_strings", False)
    pool = list(WEIRD)
    rng.shuffle(pool)

    def pick(kind, tok, prefix=""):
        if plain or rng.random() < 0.4 or not pool or (kind == "name" and pool[-1].isascii() and pool[-1].isdigit()):
            # (digit strings are the numeric nameplates themselves)
            T.define(kind, tok, "%s%s-%s" % (prefix, kind, tok))
        else:
            T.define(kind, tok, prefix + pool.pop())
    if profile.get("empty_name") and rng.random() < profile["empty_name"]:
        T.define("name", "x", "")        # (profiles that ask for it: the empty string as a nameplate, often)
        if "" in pool:
            pool.remove("")
    share = profile.get("share_strings", True)
    if not plain and rng.random() < 0.15:
        # the empty string is a legal app id and side (and sorts first)
        T.define("app", "a1", "")
        T.define("side", "s1", "")
        if "" in pool:
            pool.remove("")
    if not plain and rng.random() < 0.2:
        # a nameplate made of "digits" that are not a decimal number
        w = rng.choice(["\u00b2", "\u2460", "1\u00b2", "\u0663\u0664"])
        if "x" not in T.fwd["name"]:
            T.define("name", "x", w)
            if w in pool:
                pool.remove(w)
    elif not plain and rng.random() < 0.12:
        if "x" not in T.fwd["name"]:
            T.define("name", "x", "")        # the empty string is a legal nameplate ...
            if "" in pool:
                pool.remove("")
    if not plain and rng.random() < 0.12:
        T.define("mbox", "m1", "")       # ... and a legal mailbox id
        if "" in pool:
            pool.remove("")
    for k, a in enumerate(["a1", "a2", "a3"]):
        if a in T.fwd["app"]:
            continue
        pick("app", a, prefix="%d" % (k + 1))     # keeps the sorted() order
    for s in ["s1", "s2", "s3", "s4"]:
        if s not in T.fwd["side"]:
            pick("side", s)
    for n in ["x", "y"]:
        if n not in T.fwd["name"]:
            pick("name", n)
    for m in ["m1", "m2"]:
        if m not in T.fwd["mbox"]:
            pick("mbox", m)
    for p in ["p1", "p2", "p3"]:
        pick("phase", p)
    for b in ["b1", "b2", "b3"]:
        pick("body", b)
    for i in ["i1", "i2", "i3"]:
        pick("id", i)
    for md in MOODS:
        if md != ABSENT:
            T.define("mood", md if md else "empty", md)
    T.define("cv", "v1", "python|0.11.0")
    T.define("cv", "v2", "rust|%s" % (pool.pop() if pool and not plain else "x"))
    T.define("ping", "p", "ping-p")
    return T


DEFAULT = dict(
    apps=["a1"], sides=["s1", "s2"], names=["1", "2", "x"], client_mbox=["m1"],
    steps=40, w_connect=3, w_drop=2, w_cmd=14, w_advance=2, w_sweep_when_due=6,
    w_stop=0.3, w_crash=0.3, w_crashin=0.0, w_fault=0.0, w_malformed=0.5,
    advance=[1, 1, 2, 4, 5, 6, 11, 12], final_quiesce=True, with_ids=True,
)


class Gen(object):
    def __init__(self, rng, drv, profile):
        self.rng = rng
        self.drv = drv
        self.p = dict(DEFAULT)
        self.p.update(profile)
        self.learnt = {}        # app -> generated mailbox ids its clients were told / could learn
        self.nmsg = 0

    # --- helpers
    def flags(self):
        return self.drv.conn_flags()

    def mbox_choices(self, app=None):
        ids = set()
        for a, s in self.learnt.items():
            if app in (None, ABSENT) or a == app:
                ids |= s
        return list(self.p["client_mbox"]) + sorted(ids)

    def note(self, obs):
        fl = obs["hid"]["conn"]
        for f in obs["out"]:
            if f["type"] == "claimed" and f["mailbox"].startswith("g") and f["to"] in fl:
                self.learnt.setdefault(fl[f["to"]]["app"], set()).add(f["mailbox"])
        for r in obs["db"]["np"]:
            # a client of that app could learn the id by claiming the nameplate;
            # let eager generators also try such ids
            if r["mbox"].startswith("g") and self.rng.random() < 0.3:
                self.learnt.setdefault(r["app"], set()).add(r["mbox"])

    def rand_msg(self, fl):
        r, p = self.rng, self.p
        opt = lambda x: x if r.random() > 0.08 * p["w_malformed"] else ABSENT
        if not fl["bound"]:
            if r.random() < 0.85:
                cv = r.choice([ABSENT, ABSENT, "v1", "v2"])
                if r.random() < p.get("badcv", 0):
                    cv = r.choice(["#[1]", "#{}"])     # a client_version that is not a pair
                return msg0(type="bind", appid=opt(r.choice(p["apps"])), side=opt(r.choice(p["sides"])), cv=cv)
            ty = r.choice(["ping", "list", "claim", "open", "bogus", ABSENT])
        elif r.random() < p.get("rebind", 0):
            # a bound connection tries to bind again, to whatever app
            return msg0(type="bind", appid=r.choice(p["apps"]), side=r.choice(p["sides"]))
        else:
            w = dict(allocate=1, claim=2, release=1, open=2, add=3, close=2, list=1)
            w.update(p.get("type_weights", {}))
            if r.random() < 0.15 * p["w_malformed"]:
                w.update(bind=1, ping=1, bogus=1)
                w[ABSENT] = 1
            ty = r.choices(list(w), weights=[w[k] for k in w])[0]
        m = msg0(type=ty)
        if ty == "ping":
            m["ping"] = opt("p")
        elif ty == "claim":
            m["nameplate"] = opt(r.choice(p["names"] + self._live_names()))
        elif ty == "release":
            m["nameplate"] = r.choice([ABSENT, ABSENT] + p["names"] + self._live_names())
            if fl["npId"] != ABSENT and r.random() < 0.6:
                m["nameplate"] = r.choice([ABSENT, fl["npId"]])
        elif ty == "open":
            ch = self.mbox_choices(fl["app"])
            m["mailbox"] = opt(r.choice(ch)) if ch else ABSENT
        elif ty == "add":
            self.nmsg += 1
            m["phase"] = opt(r.choice(["p1", "p2", "p3"]))
            m["body"] = opt(r.choice(["b1", "b2", "b3"]))
            if r.random() < p.get("nonstring", 0):
                # phases are "numeric or string" per the schema; ids are arbitrary JSON
                m[r.choice(["phase", "id", "body"])] = r.choice(["#7", "#42", "#2.5", "#true"])
            if r.random() < p.get("badmood", 0) / 2:
                m[r.choice(["phase", "id", "body"])] = r.choice(["#[1]", "#{}"])
        elif ty == "close":
            ch = self.mbox_choices(fl["app"])
            m["mailbox"] = r.choice([ABSENT] + ch) if ch else ABSENT
            if fl["mboxId"] != ABSENT and r.random() < 0.7:
                m["mailbox"] = r.choice([ABSENT, fl["mboxId"]])
            m["mood"] = r.choice(MOODS)
            if m["mood"] == "":
                m["mood"] = "empty"
            if r.random() < p.get("badmood", 0):
                m["mood"] = r.choice(["#[1]", "#{}"])
        elif ty == "bind":
            m["appid"] = r.choice(p["apps"]); m["side"] = r.choice(p["sides"])
        if p["with_ids"] and r.random() < 0.5 and m["id"] == ABSENT:
            m["id"] = r.choice(["i1", "i2", "i3"])
        if p.get("nonstring", 0) and r.random() < p["nonstring"] / 2 and ty not in ("add",):
            m["id"] = r.choice(["#7", "#0", "#false"])
        return m

    def _live_names(self):
        # names currently in the database of any app (digits from allocate)
        try:
            return [r["name"] for r in self.drv.read_channel()["np"]][:6]
        except Exception:
            return []

    pending = None

    def next_event(self):
        r, p, d = self.rng, self.p, self.drv
        if self.pending:
            e = self.pending.pop(0)
            if e["k"] == "Drop" and d.up and e["c"] in d.protos:
                return e
        if not d.up:
            if r.random() < 0.5 and p["w_advance"]:
                return ev0("Advance", d=r.choice(p["advance"]))
            return ev0("Start")
        now = d.now_ticks()
        due = now >= d.next_sweep
        fl = self.flags()
        upc = [c for c in d.conn_names if fl[c]["up"]]
        downc = [c for c in d.conn_names if not fl[c]["up"]]
        opts = []
        if downc:
            opts.append((p["w_connect"], "connect"))
        if upc:
            opts.append((p["w_drop"], "drop"))
            opts.append((p["w_cmd"], "cmd"))
            if p["w_crashin"]:
                opts.append((p["w_crashin"], "crashin"))
        if due:
            opts.append((p["w_sweep_when_due"], "sweep"))
            if p["w_fault"]:
                opts.append((p["w_fault"], "fault"))
            if p["w_crashin"]:
                opts.append((p["w_crashin"], "crashinsweep"))
        elif p["w_advance"]:
            opts.append((p["w_advance"], "advance"))
        opts.append((p["w_stop"], "stop"))
        opts.append((p["w_crash"], "crash"))
        tot = sum(w for w, _ in opts)
        x = r.random() * tot
        for w, k in opts:
            x -= w
            if x <= 0:
                break
        if k == "connect":
            return ev0("Connect", c=r.choice(downc))
        if k == "drop":
            return ev0("Drop", c=r.choice(upc))
        if k == "cmd":
            c = r.choice(upc)
            m = self.rand_msg(fl[c])
            if m["type"] == "add" and r.random() < p.get("sendfail", 0.06):
                # another connection says goodbye at this very moment: it is in its closing handshake
                # while the add is broadcast (the send to it fails), and gone right afterwards
                others = [x for x in upc if x != c]
                subs = [x for x in others if fl[x]["listening"] and fl[x]["mboxId"] == fl[c]["mboxId"]]
                if others:
                    x = r.choice(subs or others)
                    self.pending = [ev0("Drop", c=x)]
                    return ev0("Cmd", c=c, m=m, pick=x)
            return ev0("Cmd", c=c, m=m)
        if k == "crashin":
            c = r.choice(upc)
            return ev0("CrashInCmd", c=c, m=self.rand_msg(fl[c]), at=r.choice([0, 0, 1, 1, 2, 3]))
        if k == "sweep":
            return ev0("Sweep")
        if k == "fault":
            return ev0("Sweep", fault=True)
        if k == "crashinsweep":
            return ev0("CrashInSweep", at=r.choice([0, 1, 2, 3, 4]))
        if k == "advance":
            dd = min(r.choice(p["advance"]), d.next_sweep - now)
            return ev0("Advance", d=dd)
        if k == "stop":
            return ev0("Stop")
        return ev0("Crash")


def make_prefill(rng, prof):
    """names to claim up front so that allocate meets a chosen occupancy"""
    spec = prof["prefill_spec"]
    app = prof["apps"][0]
    out = []
    if spec.get("spread"):
        # n (app, name) pairs over ALL apps: every name of the class held by somebody, no app holding all
        apps = list(prof["apps"])
        for (cls, lo, hi) in (("class1", 1, 10), ("class2", 10, 100)):
            n = rng.choice(spec.get(cls, [0]))
            names = [str(x) for x in range(lo, hi)]
            pairs = [(apps[k % len(apps)], nm) for k, nm in enumerate(names)]       # one holder each
            extra = [(a, nm) for nm in names for a in apps if (a, nm) not in pairs]
            rng.shuffle(extra)
            out += (pairs + extra)[:n] if n >= len(pairs) else rng.sample(pairs, n)
        rng.shuffle(out)
        return out
    n1 = rng.choice(spec.get("class1", [0]))
    out += [(app, str(n)) for n in rng.sample(range(1, 10), n1)]
    n2 = rng.choice(spec.get("class2", [0]))
    out += [(app, str(n)) for n in rng.sample(range(10, 100), n2)]
    n3 = rng.choice(spec.get("class3", [0]))
    out += [(app, str(n)) for n in rng.sample(range(100, 1000), n3)]
    for extra in spec.get("odd", []):
        if rng.random() < 0.5:
            out.append((app, extra))
    for extra in spec.get("always", []):
        out.append((app, extra))
    return out


def backfill(e, obs, gen_before, drv):
    """Fill in what only the execution can tell: the generated mailbox id and
    the random pick of allocate, so that the event is fully determined."""
    if e["k"] == "CrashInCmd":
        return e      # filled in by the driver before it rolled the step back
    if e["k"] in ("Cmd", "CrashInCmd"):
        if drv.tokens.gen > gen_before:
            e["gid"] = "g%d" % drv.tokens.gen
        for f in obs["out"]:
            if f["type"] == "allocated":
                e["pick"] = f["nameplate"]
    return e


def run_random(rng, drv, profile, tid):
    """One random history on a fresh driver; returns the list of observations."""
    g = Gen(rng, drv, profile)
    p = g.p
    obs_list = []

    def do(e):
        gen_before = drv.tokens.gen
        if e["k"] in ("CrashInCmd", "CrashInSweep"):
            # the number of durable changes is only known afterwards: clip
            pass
        extra = None
        if p.get("extra_keys") and e["k"] == "Cmd" and rng.random() < 0.3:
            extra = {rng.choice(["x", "nonce", "Type", "mailbox_id", "app", "extra"]):
                     rng.choice([None, 0, 1.5, "s", [1, 2], {"a": "b"}, "\u00e9"])}
        o = drv.step(e, extra_json=extra)
        backfill(e, o, gen_before, drv)
        o["tid"] = tid
        o["i"] = len(obs_list) + 1
        obs_list.append(o)
        if not drv.quiet:
            g.note(o)
        return o
    do(ev0("Start"))
    # optional prefill: explicit claims of chosen names by short-lived connections
    drv.quiet = bool(p.get("prefill") and p.get("skip_prefill_lines"))
    for (app, name) in p.get("prefill", []):
        c = drv.conn_names[0]
        if c in drv.protos:
            do(ev0("Drop", c=c))
        do(ev0("Connect", c=c))
        do(ev0("Cmd", c=c, m=msg0(type="bind", appid=app, side=rng.choice(p["sides"]))))
        do(ev0("Cmd", c=c, m=msg0(type="claim", nameplate=name)))
        do(ev0("Drop", c=c))
    cut = len(obs_list) if (p.get("prefill") and p.get("skip_prefill_lines")) else 0
    if drv.quiet:
        # one recorded no-op step gives the state the set-up left
        drv.quiet = False
        snap = drv.read_disk()
        obs_list[-1].update(db=snap["db"], udb=snap["udb"],
                            hid=dict(conn=drv.conn_flags(), nextSweep=drv.next_sweep, up=drv.up,
                                     rebooted=drv.rebooted, gen=drv.tokens.gen))
    for _ in range(p["steps"]):
        do(g.next_event())
    if p["final_quiesce"]:
        # everybody leaves; the clock passes EXP + 2 periods
        if not drv.up:
            do(ev0("Start"))
        for c in drv.conn_names:
            if drv.conn_flags()[c]["up"]:
                do(ev0("Drop", c=c))
        exp = drv.to_ticks(drv.m["tap"].CHANNEL_EXPIRATION_TIME)
        per = drv.to_ticks(drv.period_secs)
        target = drv.now_ticks() + exp + 2 * per
        guard = 0
        while drv.now_ticks() < target and guard < 200:
            guard += 1
            now = drv.now_ticks()
            if now >= drv.next_sweep:
                do(ev0("Sweep"))
            else:
                do(ev0("Advance", d=min(drv.next_sweep - now, target - now)))
        if drv.now_ticks() >= drv.next_sweep:
            do(ev0("Sweep"))
        if rng.random() < 0.5 and drv.up and len(drv.conn_names) >= 2:
            # afterwards (same process, everything expired) somebody -- of any app -- uses the same
            # mailbox id / nameplate again, and a second side joins
            a2 = rng.choice(p["apps"])
            i2 = rng.choice(p["client_mbox"])
            c1, c2 = drv.conn_names[0], drv.conn_names[1]
            sd = list(p["sides"])
            for (c, sx) in ((c1, sd[0]), (c2, sd[1 % len(sd)])):
                do(ev0("Connect", c=c))
                do(ev0("Cmd", c=c, m=msg0(type="bind", appid=a2, side=sx)))
                if c in drv.protos:
                    do(ev0("Cmd", c=c, m=msg0(type="open", mailbox=i2)))
                if c in drv.protos:
                    do(ev0("Cmd", c=c, m=msg0(type="add", phase="p9", body="b9")))
            for c in (c1, c2):
                if c in drv.protos:
                    do(ev0("Cmd", c=c, m=msg0(type="close", mailbox=ABSENT, mood=ABSENT)))
                if c in drv.protos:
                    do(ev0("Drop", c=c))
    if cut:
        # the prefill itself is not part of the recorded trace: it starts from the state it left
        last = obs_list[cut - 1]
        rest = obs_list[cut:]
        if rest:
            rest[0]["pre"] = dict(db=last["db"], udb=last["udb"], now=last["now"], hid=last["hid"])
            for n, o in enumerate(rest):
                o["i"] = n + 1
        return rest
    return obs_list


# ---------------------------------------------------------------------------
# scripted clients: wormhole-like flows with realistic disturbances

class Client(object):
    """one logical client (an app + side) following a role's script"""

    def __init__(self, name, app, side, role, conn):
        self.name, self.app, self.side, self.role, self.conn = name, app, side, role, conn
        self.pc = 0
        self.np = None        # nameplate it works with
        self.mbox = None      # mailbox id it learnt
        self.last = None      # last command sent (for re-sending)
        self.connected = False
        self.done = False


SCRIPTS = {
    # what the real client does, more or less
    "sender": ["bind", "allocate", "claim", "open", "add", "add", "release", "add", "close"],
    "receiver": ["bind", "claim", "open", "add", "release", "add", "close"],
    "lazy": ["bind", "claim", "open", "add", "close"],               # never releases
    # nobody releases and somebody looks at the list while the nameplate lives: the nameplate goes with
    # the mailbox, at the last close
    "sender2": ["bind", "allocate", "claim", "open", "list", "add", "close", "list"],
    "receiver2": ["bind", "claim", "list", "open", "add", "close"],
    "norelease2": ["bind", "claim", "open", "close", "release"],      # odd order
    "intruder": ["bind", "claim", "claim", "claim!", "open", "claim!", "open!", "add"],   # "!" = on a fresh connection
    "standalone": ["bind", "open", "add", "add", "close"],
    "lister": ["bind", "list", "allocate", "list", "release", "list"],
}


def run_reuse(rng, drv, profile, tid):
    """Several generations of clients use the SAME nameplate / client-chosen mailbox id one after the
    other, while connections of earlier generations linger: a side's `close` / `release` comes from a
    second connection and the first one just stays, a generation ends by expiry instead of by closing,
    the server is restarted between generations.  Each incarnation must behave like the first."""
    p = dict(DEFAULT)
    p.update(profile)
    obs_list = []

    def do(e):
        gen_before = drv.tokens.gen
        o = drv.step(e)
        backfill(e, o, gen_before, drv)
        o["tid"], o["i"] = tid, len(obs_list) + 1
        obs_list.append(o)
        return o

    def up(c):
        return c in drv.protos

    def fresh(c, app, side):
        if not drv.up:
            do(ev0("Start"))
        if up(c):
            do(ev0("Drop", c=c))
        do(ev0("Connect", c=c))
        do(ev0("Cmd", c=c, m=msg0(type="bind", appid=app, side=side, cv=rng.choice([ABSENT, "v1"]))))

    def cmd(c, **kw):
        if not drv.up or not up(c):
            return None
        return do(ev0("Cmd", c=c, m=msg0(**kw)))

    def tick():
        """the clock moves a little; sweeps happen when due"""
        if not drv.up:
            do(ev0("Start"))
        now = drv.now_ticks()
        if now >= drv.next_sweep:
            do(ev0("Sweep"))
        elif rng.random() < 0.5:
            do(ev0("Advance", d=min(rng.choice([1, 1, 2, 4]), drv.next_sweep - now)))

    do(ev0("Start"))
    slots = list(drv.conn_names)
    assert len(slots) >= 5
    alt = slots[4]
    app = p["apps"][0]
    sides = list(p["sides"])
    mbox = rng.choice(p["client_mbox"])
    name = rng.choice(p["names"])
    moods = ["happy", "lonely", "errory", "scary", ABSENT]
    rounds = rng.choice([2, 2, 3])
    off = rng.randrange(len(sides))
    for r in range(rounds):
        mains = (slots[0], slots[1]) if r % 2 == 0 else (slots[2], slots[3])
        pair = [sides[(off + r) % len(sides)], sides[(off + r + 1) % len(sides)]]
        if rng.random() < 0.2:
            pair = [sides[off % len(sides)], sides[(off + 1) % len(sides)]]   # the same two again
        via_np = rng.random() < 0.4
        told = {}
        # --- arrive
        order = [0, 1]
        rng.shuffle(order)
        todo = {0: [], 1: []}
        for k in (0, 1):
            todo[k] = (["claim"] if via_np else []) + ["open"] + ["add"] * rng.choice([1, 2]) + \
                      (["release"] if via_np and rng.random() < 0.7 else [])
            fresh(mains[k], app, pair[k])
        while todo[0] or todo[1]:
            k = rng.choice([x for x in (0, 1) if todo[x]])
            op = todo[k].pop(0)
            c = mains[k]
            if op == "claim":
                o = cmd(c, type="claim", nameplate=name)
                for f in (o or {}).get("out", []):
                    if f["type"] == "claimed":
                        told[k] = f["mailbox"]
            elif op == "open":
                i = told.get(k) if via_np else mbox
                if i is None:
                    todo[k] = []
                    continue
                cmd(c, type="open", mailbox=i)
            elif op == "add":
                cmd(c, type="add", phase=rng.choice(["p1", "p2", "p3"]), body=rng.choice(["b1", "b2"]),
                    id=rng.choice([ABSENT, "i1"]))
            elif op == "release":
                if rng.random() < 0.3:
                    # the release comes from another connection of the side; the first one stays
                    fresh(alt, app, pair[k])
                    cmd(alt, type="release", nameplate=name)
                    do(ev0("Drop", c=alt))
                else:
                    cmd(c, type="release", nameplate=rng.choice([ABSENT, name]))
                if rng.random() < 0.35:
                    # the side that released comes back for the same nameplate (refused: reclaimed), and
                    # then tries another claim on that connection (refused: one claim per connection)
                    fresh(alt, app, pair[k])
                    cmd(alt, type="claim", nameplate=name)
                    if rng.random() < 0.5:
                        cmd(alt, type="claim", nameplate=rng.choice(p["names"]))
                    if rng.random() < 0.5:
                        cmd(alt, type="release", nameplate=rng.choice([ABSENT, name]))
                    do(ev0("Drop", c=alt))
            if rng.random() < 0.15:
                tick()
        cur = told.get(0) or told.get(1) if via_np else mbox
        # --- a third side tries to get in (it must be refused, whatever happened to this id before)
        if rng.random() < 0.4 and cur:
            third = [x for x in sides if x not in pair]
            if third:
                fresh(alt, app, rng.choice(third))
                if via_np and rng.random() < 0.5:
                    cmd(alt, type="claim", nameplate=name)
                cmd(alt, type="open", mailbox=cur)
                if rng.random() < 0.5:
                    cmd(alt, type="open", mailbox=cur)      # and retries
                do(ev0("Drop", c=alt))
        # --- leave
        how = rng.random()
        leave = [0, 1]
        rng.shuffle(leave)
        for k in leave:
            c = mains[k]
            y = rng.random()
            if how < 0.2 and k == leave[1]:
                # the last one never says close: the generation ends by expiry
                if up(c):
                    do(ev0("Drop", c=c))
            elif y < 0.4 and cur:
                # close sent on another connection of the same side; the subscribed one lingers
                fresh(alt, app, pair[k])
                cmd(alt, type="close", mailbox=cur, mood=rng.choice(moods))
                if rng.random() < 0.4:
                    # ... and has second thoughts: opens it again and speaks
                    cmd(alt, type="open", mailbox=cur)
                    cmd(alt, type="add", phase=rng.choice(["p5", "p6"]), body="again")
                if rng.random() < 0.5:
                    do(ev0("Drop", c=alt))
            else:
                cmd(c, type="close", mailbox=rng.choice([ABSENT, cur or ABSENT]), mood=rng.choice(moods))
                z = rng.random()
                if z < 0.25 and cur:
                    cmd(c, type="open", mailbox=cur)      # re-open after close, on the same connection
                elif z < 0.6 and up(c):
                    do(ev0("Drop", c=c))
        # whoever is still connected (this generation's or an earlier one's) says something late
        for c in slots[:4]:
            if up(c) and rng.random() < 0.4:
                cmd(c, type="add", phase=rng.choice(["p7", "p8"]), body="late")
        if how < 0.2 or rng.random() < 0.15:
            # everybody goes; the channel (if it still exists) expires
            quiesce(drv, do)
        elif rng.random() < 0.2:
            do(ev0(rng.choice(["Stop", "Crash"])))
            do(ev0("Start"))
        elif rng.random() < 0.3:
            tick()
    if p["final_quiesce"]:
        quiesce(drv, do)
    return obs_list


def run_idle(rng, drv, profile, tid):
    """A restarted server meets channels left by its predecessor; clients bind and then sit idle across
    one or more sweeps before they first use a channel (others arrive only after the sweep); then they
    meet in the same mailbox, exchange messages, stay subscribed -- silently -- for longer than the
    expiration time while the sweeps run, exchange messages again and leave."""
    p = dict(DEFAULT)
    p.update(profile)
    obs_list = []

    def do(e):
        gen_before = drv.tokens.gen
        o = drv.step(e)
        backfill(e, o, gen_before, drv)
        o["tid"], o["i"] = tid, len(obs_list) + 1
        obs_list.append(o)
        return o

    def up(c):
        return c in drv.protos

    def bind(c, app, side):
        if up(c):
            do(ev0("Drop", c=c))
        do(ev0("Connect", c=c))
        do(ev0("Cmd", c=c, m=msg0(type="bind", appid=app, side=side, cv=rng.choice([ABSENT, "v1"]))))

    def cmd(c, **kw):
        if not drv.up or not up(c):
            return None
        return do(ev0("Cmd", c=c, m=msg0(**kw)))

    def to_sweep(n=1):
        for _ in range(n):
            guard = 0
            while drv.now_ticks() < drv.next_sweep and guard < 50:
                guard += 1
                do(ev0("Advance", d=min(rng.choice([1, 2, 4, 5]), drv.next_sweep - drv.now_ticks())))
            do(ev0("Sweep"))

    do(ev0("Start"))
    slots = list(drv.conn_names)
    apps = list(p["apps"])
    app = apps[0]
    sides = list(p["sides"])
    mbox = rng.choice(p["client_mbox"])
    name = rng.choice(p["names"])
    via_np = rng.random() < 0.5
    # --- the predecessor's leftovers
    left = rng.choice(p.get("left_choices") or ["channel", "channel", "other", "otherapp", "none"])
    if left != "none":
        a0 = apps[-1] if left == "otherapp" else app
        bind(slots[0], a0, sides[0])
        if left == "channel" and via_np:
            cmd(slots[0], type="claim", nameplate=name)
        elif left == "channel":
            cmd(slots[0], type="open", mailbox=mbox)
            cmd(slots[0], type="add", phase="p0", body="b0")
        else:
            cmd(slots[0], type="claim", nameplate=rng.choice([n for n in p["names"] if n != name] or [name]))
        if rng.random() < 0.5:
            do(ev0("Advance", d=rng.choice([1, 2, 3])))
    if rng.random() < 0.85:
        do(ev0(rng.choice(["Stop", "Crash"])))
        do(ev0("Start"))
    # --- who binds before the sweep, who after
    cl = [(slots[0], sides[0]), (slots[1], sides[1 % len(sides)])]
    if len(slots) > 3 and rng.random() < 0.4:
        cl.append((slots[2], sides[0]))          # a second connection of the first side
    early = [x for x in cl if rng.random() < 0.6]
    for (c, s) in early:
        bind(c, app, s)
    to_sweep(rng.choice([1, 1, 2]))
    for (c, s) in cl:
        if (c, s) not in early:
            bind(c, app, s)
    # --- they meet
    order = list(cl)
    rng.shuffle(order)
    told = None
    for (c, s) in order:
        if via_np:
            o = cmd(c, type="claim", nameplate=name)
            for f in (o or {}).get("out", []):
                if f["type"] == "claimed":
                    told = f["mailbox"]
            if told:
                cmd(c, type="open", mailbox=told)
        else:
            cmd(c, type="open", mailbox=mbox)
        if rng.random() < 0.7:
            cmd(c, type="add", phase=rng.choice(["p1", "p2"]), body=rng.choice(["b1", "b2"]))
        if rng.random() < 0.25:
            to_sweep(1)
    for (c, s) in order:
        cmd(c, type="add", phase=rng.choice(["p3", "p4"]), body="b3")
    # --- the older of two connections of one side goes away; the newer one stays subscribed
    if len(cl) > 2 and rng.random() < 0.6:
        first = [c for (c, s_) in order if s_ == cl[0][1]]
        if len(first) == 2 and up(first[0]) and up(first[1]):
            if rng.random() < 0.5:
                cmd(first[0], type="close", mailbox=ABSENT, mood=ABSENT)
            if up(first[0]):
                do(ev0("Drop", c=first[0]))
    # --- sometimes the other side leaves without a word: one side alone keeps the channel alive
    if rng.random() < 0.35:
        for (c, s_) in order:
            if s_ != cl[0][1] and up(c):
                do(ev0("Drop", c=c))
    # --- a long silence with everybody (who is left) subscribed
    if rng.random() < 0.7:
        exp = drv.to_ticks(drv.m["tap"].CHANNEL_EXPIRATION_TIME)
        per = drv.to_ticks(drv.period_secs)
        to_sweep((exp // per) + rng.choice([2, 3]))
        if rng.random() < 0.5:
            for (c, s) in order[:2]:
                cmd(c, type="add", phase="p5", body=rng.choice(["b1", "b2"]))
        else:
            # nobody says anything more: they just go, one sweep period apart at most, and the channel
            # they kept alive by being there must outlive them by the usual time
            for (c, s) in order:
                if up(c):
                    do(ev0("Drop", c=c))
            to_sweep(1)
            if rng.random() < 0.5:
                bind(slots[0], app, cl[0][1])
                if via_np:
                    cmd(slots[0], type="claim", nameplate=name)
                else:
                    cmd(slots[0], type="open", mailbox=mbox)
    # --- leave
    cur = told if via_np else mbox
    for (c, s) in order:
        y = rng.random()
        if y < 0.6:
            if via_np and rng.random() < 0.7:
                cmd(c, type="release", nameplate=rng.choice([ABSENT, name]))
            cmd(c, type="close", mailbox=rng.choice([ABSENT, cur or ABSENT]), mood=rng.choice(["happy", ABSENT]))
        if y < 0.8 and up(c):
            do(ev0("Drop", c=c))
    if p["final_quiesce"]:
        quiesce(drv, do)
    return obs_list


def run_scripted(rng, drv, profile, tid):
    if profile.get("scripted") == "reuse":
        return run_reuse(rng, drv, profile, tid)
    if profile.get("scripted") == "idle":
        return run_idle(rng, drv, profile, tid)
    p = dict(DEFAULT)
    p.update(profile)
    obs_list = []
    g = Gen(rng, drv, p)

    def do(e):
        if e["k"] in ("Cmd", "Drop") and e["c"] not in drv.protos:
            # the connection died of an internal failure of its previous command
            return dict(out=[], err=ABSENT)
        if e["k"] == "Connect" and e["c"] in drv.protos:
            return dict(out=[], err=ABSENT)
        gen_before = drv.tokens.gen
        o = drv.step(e)
        backfill(e, o, gen_before, drv)
        o["tid"], o["i"] = tid, len(obs_list) + 1
        obs_list.append(o)
        return o
    do(ev0("Start"))
    slots = list(drv.conn_names)
    nclients = min(len(slots) - 1, rng.choice([2, 2, 3, 3, 4]))
    shared = dict(np=None, mbox=rng.choice(p["client_mbox"]))
    roles = [rng.choice(["sender", "sender", "sender2"]), rng.choice(["receiver", "receiver", "lazy", "norelease2", "receiver2"])] + \
        [rng.choice(["intruder", "standalone", "lister", "receiver"]) for _ in range(nclients - 2)]
    sides = list(p["sides"])
    clients = []
    for k, role in enumerate(roles):
        side = sides[k % len(sides)] if role != "intruder" else sides[-1]
        app = p["apps"][0] if (role in ("sender", "sender2", "receiver", "receiver2", "lazy", "norelease2", "intruder") or len(p["apps"]) == 1) \
            else rng.choice(p["apps"])
        clients.append(Client("k%d" % k, app, side, role, slots[k]))
    spare = slots[-1]
    moods = ["happy", "lonely", "errory", "scary", ABSENT]

    def ensure(cl, fresh=False):
        """(re)connect and bind"""
        fl = drv.conn_flags()[cl.conn]
        if fresh and fl["up"]:
            do(ev0("Drop", c=cl.conn))
            fl = drv.conn_flags()[cl.conn]
        if not fl["up"]:
            do(ev0("Connect", c=cl.conn))
            do(ev0("Cmd", c=cl.conn, m=msg0(type="bind", appid=cl.app, side=cl.side,
                                            cv=rng.choice([ABSENT, "v1"]))))
            return True
        return False

    def command(cl, op):
        m = None
        if op == "allocate":
            m = msg0(type="allocate")
        elif op == "claim":
            n = shared["np"] if (cl.role != "lister" and shared["np"]) else cl.np
            if n is None:
                n = rng.choice(p["names"])
            cl.np = n
            m = msg0(type="claim", nameplate=n)
        elif op == "open":
            i = cl.mbox
            if i is None and cl.role == "intruder":
                # an eavesdropper knows the mailbox the two sides were told
                i = shared.get("mbox_np") or shared["mbox"]
            if i is None and cl.role == "standalone":
                i = shared["mbox"]
            if i is None:
                return None
            cl.mbox = i
            m = msg0(type="open", mailbox=i)
        elif op == "add":
            m = msg0(type="add", phase=rng.choice(["p1", "p2", "p3"]), body=rng.choice(["b1", "b2", "b3"]),
                     id=rng.choice([ABSENT, "i1", "i2"]))
            if rng.random() < p.get("nonstring", 0):
                m[rng.choice(["phase", "id"])] = rng.choice(["#7", "#42", "#2.5", "#true"])
            if rng.random() < p.get("badmood", 0) / 2:
                m[rng.choice(["phase", "id", "body"])] = rng.choice(["#[1]", "#{}"])
        elif op == "release":
            m = msg0(type="release", nameplate=rng.choice([ABSENT, cl.np or ABSENT]))
        elif op == "close":
            m = msg0(type="close", mailbox=rng.choice([ABSENT, cl.mbox or ABSENT]), mood=rng.choice(moods))
            if rng.random() < p.get("badmood", 0):
                m["mood"] = rng.choice(["#[1]", "#{}"])
        elif op == "list":
            m = msg0(type="list")
        return m

    def learn(cl, o):
        for f in o["out"]:
            if f["type"] == "allocated":
                cl.np = f["nameplate"]
                if cl.role in ("sender", "sender2"):
                    shared["np"] = f["nameplate"]
            if f["type"] == "claimed":
                cl.mbox = f["mailbox"]
                if cl.role in ("sender", "sender2", "receiver", "receiver2", "lazy", "norelease2"):
                    shared["mbox_np"] = f["mailbox"]

    steps = 0
    while steps < p["steps"] and any(not c.done for c in clients):
        steps += 1
        if not drv.up:
            do(ev0("Start"))
            continue
        now = drv.now_ticks()
        if now >= drv.next_sweep:
            do(ev0("Sweep", fault=(rng.random() < 0.03 * p["w_fault"])))
            continue
        x = rng.random()
        if x < 0.10:
            do(ev0("Advance", d=min(rng.choice(p["advance"]), drv.next_sweep - now)))
            continue
        if x < 0.10 + 0.02 * p["w_stop"]:
            do(ev0(rng.choice(["Stop", "Crash"])))
            continue
        cl = rng.choice([c for c in clients if not c.done])
        script = SCRIPTS[cl.role]
        if cl.pc >= len(script):
            cl.done = True
            if rng.random() < 0.5 and drv.conn_flags()[cl.conn]["up"]:
                do(ev0("Drop", c=cl.conn))
            continue
        op = script[cl.pc]
        fresh = op.endswith("!")
        op = op.rstrip("!")
        if op == "bind":
            ensure(cl)
            cl.pc += 1
            continue
        y = rng.random()
        reconnected = ensure(cl, fresh=fresh or y < 0.12)
        if reconnected and cl.mbox and cl.pc > script.index("open") if "open" in script else False:
            # a reconnecting client re-opens its mailbox; sometimes re-sends its last command first
            if cl.last is not None and rng.random() < 0.5:
                o = do(ev0("Cmd", c=cl.conn, m=dict(cl.last)))
                learn(cl, o)
            o = do(ev0("Cmd", c=cl.conn, m=msg0(type="open", mailbox=cl.mbox)))
        elif reconnected and cl.last is not None and rng.random() < 0.6:
            o = do(ev0("Cmd", c=cl.conn, m=dict(cl.last)))
            learn(cl, o)
        if y > 0.93 and cl.mbox and not drv.conn_flags()[spare]["up"]:
            # a second connection of the same side subscribes as well
            do(ev0("Connect", c=spare))
            do(ev0("Cmd", c=spare, m=msg0(type="bind", appid=cl.app, side=cl.side)))
            do(ev0("Cmd", c=spare, m=msg0(type="open", mailbox=cl.mbox)))
        elif y > 0.88 and drv.conn_flags()[spare]["up"]:
            # the second connection goes away, sometimes saying `close` first (its mailbox may be gone by now)
            if rng.random() < 0.6:
                do(ev0("Cmd", c=spare, m=msg0(type="close", mailbox=rng.choice([ABSENT, drv.conn_flags()[spare]["mboxId"]]),
                                              mood=rng.choice(moods))))
            do(ev0("Drop", c=spare))
        m = command(cl, op)
        cl.pc += 1
        if m is None:
            continue
        pick = ABSENT
        if m["type"] == "add" and rng.random() < p.get("sendfail", 0.06):
            # another connection says goodbye at this very moment (closing handshake: the send to it fails)
            others = [x for x in drv.protos if x != cl.conn]
            if others:
                pick = rng.choice(others)
        o = do(ev0("Cmd", c=cl.conn, m=m, pick=pick))
        if pick != ABSENT:
            do(ev0("Drop", c=pick))
        if m["type"] in ("claim", "release", "open", "close"):
            cl.last = m
        learn(cl, o)
    if p["final_quiesce"]:
        if not drv.up:
            do(ev0("Start"))
        for c in drv.conn_names:
            if drv.conn_flags()[c]["up"]:
                do(ev0("Drop", c=c))
        exp = drv.to_ticks(drv.m["tap"].CHANNEL_EXPIRATION_TIME)
        per = drv.to_ticks(drv.period_secs)
        target = drv.now_ticks() + exp + 2 * per
        guard = 0
        while drv.now_ticks() < target and guard < 200:
            guard += 1
            now = drv.now_ticks()
            if now >= drv.next_sweep:
                do(ev0("Sweep"))
            else:
                do(ev0("Advance", d=min(drv.next_sweep - now, target - now)))
        if drv.now_ticks() >= drv.next_sweep:
            do(ev0("Sweep"))
        # somebody comes back after everything expired: the same ids start afresh
        if rng.random() < 0.7:
            c = drv.conn_names[0]
            do(ev0("Connect", c=c))
            do(ev0("Cmd", c=c, m=msg0(type="bind", appid=clients[0].app, side=clients[0].side)))
            for i in [shared["mbox"], shared.get("mbox_np")]:
                if i:
                    do(ev0("Cmd", c=c, m=msg0(type="open", mailbox=i)))
                    do(ev0("Cmd", c=c, m=msg0(type="add", phase="p1", body="b1")))
                    do(ev0("Cmd", c=c, m=msg0(type="close", mailbox=i, mood=ABSENT)))
                    break
            do(ev0("Drop", c=c))
            c2 = drv.conn_names[1]
            do(ev0("Connect", c=c2))
            do(ev0("Cmd", c=c2, m=msg0(type="bind", appid=clients[0].app, side=clients[0].side)))
            i = shared["mbox"]
            do(ev0("Cmd", c=c2, m=msg0(type="open", mailbox=i)))
            do(ev0("Drop", c=c2))
    return obs_list


def quiesce(drv, do):
    """everybody leaves; the clock passes EXP + 2 periods with the sweeps running"""
    if not drv.up:
        do(ev0("Start"))
    for c in drv.conn_names:
        if c in drv.protos:
            do(ev0("Drop", c=c))
    exp = drv.to_ticks(drv.m["tap"].CHANNEL_EXPIRATION_TIME)
    per = drv.to_ticks(drv.period_secs)
    target = drv.now_ticks() + exp + 2 * per
    guard = 0
    while drv.now_ticks() < target and guard < 200:
        guard += 1
        now = drv.now_ticks()
        if now >= drv.next_sweep:
            do(ev0("Sweep"))
        else:
            do(ev0("Advance", d=min(drv.next_sweep - now, target - now)))
    if drv.now_ticks() >= drv.next_sweep:
        do(ev0("Sweep"))
