"""Get behaviours out of TLC: `tlc -simulate file=...` writes one TLA+ file per
behaviour; the `act` variable of every state is the event that led to it."""
import os, re, subprocess, shutil, glob
from .tracecheck import JAVA


class P(object):
    """Parser for the TLA+ value syntax TLC prints."""

    def __init__(self, s, i=0):
        self.s, self.i = s, i

    def ws(self):
        while self.i < len(self.s) and self.s[self.i] in " \t\r\n":
            self.i += 1

    def eat(self, tok):
        self.ws()
        assert self.s.startswith(tok, self.i), (tok, self.s[self.i:self.i + 40])
        self.i += len(tok)

    def peek(self, tok):
        self.ws()
        return self.s.startswith(tok, self.i)

    def value(self):
        self.ws()
        s = self.s
        ch = s[self.i]
        if ch == '"':
            j = self.i + 1
            out = []
            while s[j] != '"':
                if s[j] == "\\":
                    j += 1
                out.append(s[j])
                j += 1
            self.i = j + 1
            return "".join(out)
        if s.startswith("<<", self.i):
            self.i += 2
            return self.seq(">>")
        if ch == "{":
            self.i += 1
            return self.seq("}")
        if ch == "[":
            self.i += 1
            r = {}
            if self.peek("]"):
                self.eat("]")
                return r
            while True:
                self.ws()
                m = re.compile(r"[A-Za-z_][A-Za-z0-9_]*").match(s, self.i)
                key = m.group(0)
                self.i = m.end()
                self.eat("|->")
                r[key] = self.value()
                if self.peek(","):
                    self.eat(",")
                    continue
                self.eat("]")
                return r
        if ch == "(":   # function (k :> v @@ k :> v)
            self.i += 1
            r = {}
            while True:
                k = self.value()
                self.eat(":>")
                r[k] = self.value()
                if self.peek("@@"):
                    self.eat("@@")
                    continue
                self.eat(")")
                return r
        m = re.compile(r"-?\d+").match(s, self.i)
        if m:
            self.i = m.end()
            return int(m.group(0))
        for lit, v in (("TRUE", True), ("FALSE", False)):
            if s.startswith(lit, self.i):
                self.i += len(lit)
                return v
        raise ValueError("cannot parse at %r" % s[self.i:self.i + 60])

    def seq(self, close):
        r = []
        if self.peek(close):
            self.eat(close)
            return r
        while True:
            r.append(self.value())
            if self.peek(","):
                self.eat(",")
                continue
            self.eat(close)
            return r


def events_of_file(path, var="act"):
    txt = open(path).read()
    evs = []
    for m in re.finditer(r"^/\\ %s = " % var, txt, re.M):
        v = P(txt, m.end()).value()
        evs.append(v)
    return evs[1:]    # the first state's act is the dummy initial value


def simulate(module, cfg, num, depth, seed, workdir, workers=4, cwd=None, timeout=600):
    """Run TLC in simulation mode; return (list of event lists, tlc stats, log)."""
    out = os.path.join(workdir, "sim")
    shutil.rmtree(out, ignore_errors=True)
    os.makedirs(out)
    per = max(1, num // workers)
    cmd = JAVA[:1] + ["-XX:+UseParallelGC", "-XX:ParallelGCThreads=4", "-Xmx4g"] + JAVA[1:] + ["tlc2.TLC", "-simulate", "file=%s/t,num=%d" % (out, per), "-depth", str(depth),
                  "-workers", str(workers), "-seed", str(seed),
                  "-metadir", os.path.join(workdir, "simmeta"), "-noGenerateSpecTE",
                  "-config", cfg, module]
    class _R(object):
        stdout = ""
    try:
        pr = subprocess.run(cmd, cwd=cwd, stdout=subprocess.PIPE, stderr=subprocess.STDOUT, text=True,
                            timeout=timeout)
    except subprocess.TimeoutExpired as ex:
        # (a loaded machine) use the behaviours written so far
        pr = _R()
        o = ex.stdout
        pr.stdout = (o.decode("utf-8", "replace") if isinstance(o, bytes) else (o or "")) + "\n[simulation stopped after %d s]" % timeout
    behaviours = []
    for f in sorted(glob.glob(out + "/t_*")):
        try:
            behaviours.append(events_of_file(f))
        except Exception as ex:   # a truncated file of an interrupted worker
            continue
    shutil.rmtree(out, ignore_errors=True)
    shutil.rmtree(os.path.join(workdir, "simmeta"), ignore_errors=True)
    m = re.search(r"The number of states generated: (\d+)", pr.stdout)
    bad = "Error:" in pr.stdout or "is violated" in pr.stdout
    return behaviours, dict(states=int(m.group(1)) if m else 0, violated=bad), pr.stdout


def modelcheck(module, cfg, workdir, workers=8, cwd=None, timeout=3600, tag="mc"):
    """Exhaustive TLC run; returns stats dict and the log."""
    meta = os.path.join(workdir, "meta_" + tag)
    cmd = JAVA[:1] + ["-XX:+UseParallelGC", "-XX:ParallelGCThreads=4", "-Xmx8g"] + JAVA[1:] + ["tlc2.TLC", "-workers", str(workers), "-metadir", meta,
                  "-noGenerateSpecTE", "-config", cfg, module]
    try:
        pr = subprocess.run(cmd, cwd=cwd, stdout=subprocess.PIPE, stderr=subprocess.STDOUT, text=True,
                            timeout=timeout)
        log = pr.stdout
        timed_out = False
    except subprocess.TimeoutExpired as ex:
        log = (ex.stdout or b"").decode("utf-8", "replace") if isinstance(ex.stdout, bytes) else (ex.stdout or "")
        timed_out = True
    shutil.rmtree(meta, ignore_errors=True)
    m = re.search(r"(\d+) states generated, (\d+) distinct states found", log)
    d = re.search(r"depth of the complete state graph search is (\d+)", log)
    ok = "Model checking completed. No error has been found." in log
    viol = re.findall(r"(?:Invariant|Action property|Temporal properties?) (\S+)? ?(?:is|was|were) violated", log)
    return dict(generated=int(m.group(1)) if m else 0, distinct=int(m.group(2)) if m else 0,
                depth=int(d.group(1)) if d else 0, complete=ok, timed_out=timed_out,
                violated=("violated" in log), error=("Error:" in log and not ok)), log
