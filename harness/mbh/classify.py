"""C15 (classification rule, times) and C16 (blur arithmetic) over the whole finite input domain of the
real summary functions: enumerate the cases, call the real code, let TLC (spec/Classify.tla) recompute."""
import itertools, json, os, random, shutil, subprocess
from fractions import Fraction

MOODS = ["happy", "lonely", "errory", "scary", "weird", "", None]


def cases(rng, tier):
    """yield dicts describing one call each (times in 1/100 s ticks)"""
    n = 0
    blurs = [0, 100, 700, 4500, 6100, 360000] if tier == "quick" else [0, 100, 700, 4500, 6100, 6000, 360000, 8640000]
    for nsides in range(0, 5):
        combos = list(itertools.combinations_with_replacement(range(len(MOODS)), nsides))
        for combo in combos:
            for pruned in (False, True):
                for rep in range(1 if tier == "quick" else 3):
                    blur = rng.choice(blurs)
                    base = rng.randrange(0, 200000)
                    times = [base + rng.choice([0, 0, 1, 50, 99, 100, 6001, rng.randrange(0, 700000)]) for _ in range(nsides)]
                    when = max(times + [base]) + rng.choice([0, 1, 12345, 660000])
                    moods = [MOODS[k] for k in combo]
                    rng.shuffle(moods)
                    n += 1
                    yield dict(n=n, kind="mailbox", blur=blur, pruned=pruned, forNp=rng.random() < 0.5,
                               when=when, times=times, moods=moods)
                    if all(m is None for m in moods) and nsides >= 1:
                        n += 1
                        yield dict(n=n, kind="nameplate", blur=blur, pruned=pruned, forNp=False, when=when,
                                   times=times, moods=moods)
    for blur in blurs:
        for _ in range(12 if tier == "quick" else 60):
            n += 1
            t = rng.randrange(0, 1000000)
            if blur and rng.random() < 0.4:
                t = blur * rng.randrange(1, 50) + rng.choice([0, 1, blur - 1, blur // 2, blur // 2 + 1])
            yield dict(n=n, kind="bind", blur=blur, pruned=False, forNp=False, when=t, times=[], moods=[])


def run_real(cs):
    """call the real code for every case; returns trace lines"""
    from .driver import load_repo
    m = load_repo()
    server, database = m["server"], m["database"]
    lines = []
    tick = Fraction(1, 100)
    secs = lambda t: float(t * tick)
    ticks = lambda x: -1 if x is None else int(round(Fraction(x).limit_denominator(10 ** 6) / tick))
    for c in cs:
        blur_s = None
        if c["blur"]:
            b = c["blur"] * tick
            blur_s = int(b) if b.denominator == 1 else float(b)
        udb = database.create_or_upgrade_usage_db(":memory:")
        srv = server.make_server(database.create_channel_db(":memory:"), blur_usage=blur_s, usage_db=udb)
        app = srv.get_app("a")
        rows = [dict(side="s%d" % k, added=secs(t), mood=mo, opened=False, claimed=True)
                for k, (t, mo) in enumerate(zip(c["times"], c["moods"]))]
        got = None
        try:
            if c["kind"] == "mailbox":
                u = app._summarize_mailbox(rows, secs(c["when"]), c["pruned"])
            elif c["kind"] == "nameplate":
                u = app._summarize_nameplate_usage(rows, secs(c["when"]), c["pruned"])
            else:
                app.log_client_version(secs(c["when"]), "s", ("impl", "ver"))
                (ct,) = udb.execute("SELECT connect_time FROM client_versions").fetchone().values()
                u = server.Usage(started=ct, waiting_time=None, total_time=0, result="-")
            got = dict(started=ticks(u.started), waiting=ticks(u.waiting_time), total=ticks(u.total_time), result=u.result)
        except Exception as ex:
            got = dict(started=-9, waiting=-9, total=-9, result="!" + type(ex).__name__)
        lines.append(dict(n=c["n"], kind=c["kind"], blur=c["blur"], pruned=c["pruned"], forNp=c["forNp"], when=c["when"],
                          rows=[dict(side="s%d" % k, added=t, mood=("~" if mo is None else mo))
                                for k, (t, mo) in enumerate(zip(c["times"], c["moods"]))],
                          got=got))
    return lines


def check(lines, workdir, tag="cls"):
    from .tracecheck import JAVA
    os.makedirs(workdir, exist_ok=True)
    tf, of = os.path.join(workdir, tag + ".ndjson"), os.path.join(workdir, tag + ".out.json")
    with open(tf, "w") as f:
        for ln in lines:
            f.write(json.dumps(ln, separators=(",", ":")) + "\n")
    with open(os.path.join(workdir, "CL_%s.tla" % tag), "w") as f:
        f.write("---- MODULE CL_%s ----\nEXTENDS Classify\n====\n" % tag)
    with open(os.path.join(workdir, "CL_%s.cfg" % tag), "w") as f:
        f.write("SPECIFICATION CSpec\nCHECK_DEADLOCK FALSE\n")
    env = dict(os.environ, MBH_TRACE=tf, MBH_OUT=of)
    cmd = JAVA[:1] + ["-XX:+UseSerialGC", "-Xmx2g"] + JAVA[1:] + [
        "tlc2.TLC", "-workers", "1", "-metadir", os.path.join(workdir, "meta_" + tag), "-noGenerateSpecTE",
        "-config", "CL_%s.cfg" % tag, "CL_%s.tla" % tag]
    pr = subprocess.run(cmd, cwd=workdir, env=env, stdout=subprocess.PIPE, stderr=subprocess.STDOUT, text=True)
    shutil.rmtree(os.path.join(workdir, "meta_" + tag), ignore_errors=True)
    if not os.path.exists(of):
        return None, pr.stdout[-4000:]
    return json.load(open(of))["res"], ""


def work(job):
    tier, seed, workdir = job
    rng = random.Random("classify/%d" % seed)
    lines = run_real(list(cases(rng, tier)))
    res, lg = check(lines, workdir)
    return lines, res, lg
