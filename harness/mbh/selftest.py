"""Demonstrates that the binding bites: recorded traces of the unchanged code are accepted;
the same traces with one field corrupted are rejected by the conformance check and, where a
property is touched, by the matching monitor clause."""
import copy, json, os, shutil, sys
HERE = os.path.dirname(os.path.abspath(__file__))
sys.path.insert(0, os.path.dirname(HERE))
from mbh import check
from mbh.tracecheck import check_batch, ALL_PROPS


def judge(lines, key, conns, tag, work):
    res, st = check_batch(lines, key, conns, ALL_PROPS, work, tag)
    assert res is not None, st
    conf = [r for r in res if r["kind"] == "conf"]
    prop = sorted({c for r in res if r["kind"] == "prop" for c in r["what"]})
    return conf, prop


def main():
    work = os.path.join(os.path.dirname(os.path.dirname(HERE)), "work", "selftest-%d" % os.getpid())
    os.makedirs(work)
    ok = True
    try:
        traces = check.work_random(("script", {}, 7, 12, 0))
        key, conns = tuple(traces[0]["key"]), traces[0]["conns"]
        lines = [l for t in traces for l in t["lines"]]
        conf, prop = judge(lines, key, conns, "clean", work)
        print("clean traces: %d steps, %d conformance rejections, failing clauses %s" % (len(lines), len(conf), prop))
        ok &= (not conf and not prop)

        def find(pred):
            for i, l in enumerate(lines):
                if pred(l):
                    return i
            raise SystemExit("no suitable step in the sample")
        cases = []
        # (a) a delivered message carries the wrong side
        i = find(lambda l: l["e"]["m"]["type"] == "add" and any(f["type"] == "message" for f in l["out"]))
        a = copy.deepcopy(lines)
        for f in a[i]["out"]:
            if f["type"] == "message":
                f["side"] = "s3" if f["side"] != "s3" else "s1"
                break
        cases.append(("message frame with a wrong side", a, {"C02.a"}))
        # (b) an activity stamp is off by one
        i = find(lambda l: l["db"]["mb"] and l["e"]["k"] == "Cmd")
        b = copy.deepcopy(lines)
        b[i]["db"]["mb"][0]["updated"] += 1
        cases.append(("mailbox activity stamp off by one", b, set()))
        # (c) a commit inside a claim went missing
        i = find(lambda l: l["e"]["m"]["type"] == "claim" and len(l["tr"]) == 2)
        c = copy.deepcopy(lines)
        del c[i]["tr"][0]
        for f in c[i]["out"]:
            f["ci"] = min(f["ci"], 1)
        cases.append(("one of the two commits of a claim missing", c, set()))
        # (d) `closed` is not sent
        i = find(lambda l: l["e"]["m"]["type"] == "close" and any(f["type"] == "closed" for f in l["out"]))
        d = copy.deepcopy(lines)
        d[i]["out"] = [f for f in d[i]["out"] if f["type"] != "closed"]
        cases.append(("`closed` frame missing", d, {"C08.a"}))
        # (e) a stored message vanishes
        i = find(lambda l: l["db"]["msgs"] and l["e"]["k"] in ("Connect", "Drop", "Advance"))
        e = copy.deepcopy(lines)
        e[i]["db"]["msgs"] = e[i]["db"]["msgs"][1:]
        cases.append(("a stored message vanishes on an unrelated step", e, {"C01.b"}))
        for n, (what, ls, expect) in enumerate(cases):
            conf, prop = judge(ls, key, conns, "corrupt%d" % n, work)
            good = bool(conf) and expect <= set(prop)
            print("%-50s -> %d conformance rejections, failing clauses %s : %s"
                  % (what, len(conf), prop, "rejected as expected" if good else "NOT REJECTED"))
            ok &= good
    finally:
        shutil.rmtree(work, ignore_errors=True)
    print("selftest", "passed" if ok else "FAILED")
    return 0 if ok else 1


if __name__ == "__main__":
    sys.exit(main())
