"""The repository's own tests as a trace source (DESIGN 4.6 / 10.8).

Loaded as a pytest plugin (`-p mbh.testrec`, PYTHONPATH=/verif/harness) when the check runs the
websocket tests of the code under test.  Nothing in the repository is edited: the plugin wraps, from
outside, `Server.__init__` (one recorded trace per server a test builds) and the protocol's
`onOpen` / `onMessage` / `onClose` / `sendMessage`, and writes, per protocol step, the same
observation record the in-process driver produces (event, frames, durable states, both databases,
connection flags).  The traces then go through spec/TraceCheck.tla like any other: conformance with
`Step` and every property clause.

Tests also reach into the server directly (`app.claim_nameplate("np1", "side1", 0)`, SQL on
`app._db`): such a call is not a protocol event, and it uses clock values of its own.  A trace is cut
at the first direct mutation (depth-counted wrappers on the mutating methods of AppNamespace / Mailbox /
Server, plus a comparison of the stored state with the state the last recorded step left).

The clock of the server modules is the harness's virtual clock (constant during a test), so recorded
times are whole ticks.
"""
import atexit, json, os, sys

from . import driver as D
from .driver import ABSENT, CONN0, Config, Tokens, ev0, msg0, MSG_KIND

OUT = os.environ.get("MBH_TESTREC_OUT")
T0 = 6000.0          # the virtual instant at which every test plays (tick 100)

_traces = []
_depth = [0]
_by_server = {}


class Rec(D.Driver):
    """Driver-like recorder around a Server a test created (the Driver's projection functions are
    reused; nothing is started, nothing is driven)."""

    def __init__(self, server, mgr):
        self.mgr = mgr
        self.m = mgr.m
        self.server = server
        self.tid = len(_traces) + 1
        self.tokens = Tokens()
        self.tokens.define("cv", "v1", "python|0.11.0")
        self.clock = mgr.clock
        self.protos = {}
        self._names = {}         # id(protocol) -> conn name
        self.conn_names = ()
        self._shadow = {}
        self._step = None
        self._sent = None
        self._fault_armed = False
        self._force_pick = None
        self._conns_made = mgr._conns_made
        self.next_sweep = 10 ** 6
        self.rebooted = 0
        self.up = True
        self.quiet = False
        self.lines = []
        self.cut = None          # why recording stopped
        self.last = None         # stored state after the last recorded step
        self._ro = {}
        self._in_hook = False
        self.chan_path = getattr(self._db(), "_mbh_path")
        udb = self._udb()
        self.usage_path = getattr(udb, "_mbh_path") if udb is not None else None
        if ":memory:" in (self.chan_path, self.usage_path):
            raise RuntimeError("in-memory database")
        self._db()._mbh_role = "channel"
        if udb is not None:
            udb._mbh_role = "usage"
        blur = getattr(server, "_blur_usage", None)
        unit = 60
        self.cfg = Config(allow_list=bool(getattr(server, "_allow_list", True)), usage=udb is not None,
                          blur=int(blur // unit) if blur else 0, unit=unit,
                          welcome=dict(getattr(server, "_welcome", {}) or {}))
        if blur and blur % unit:
            self.cut = "blur interval not a whole number of ticks"
        w = dict(self.cfg.welcome)
        w.pop("current_cli_version", None) if False else None
        self._pools = dict(app=["a1", "a2", "a3"], side=["s1", "s2", "s3", "s4"], mbox=["m1", "m2"])

    # -- the stored state: the tests' ":memory:" databases are private files here (driver._vconnect),
    #    read like the driver reads them, through independent read-only connections
    def _db(self):
        for n in ("_db", "_channel_db"):
            if hasattr(self.server, n):
                return getattr(self.server, n)
        raise AttributeError("no channel db")

    def _udb(self):
        return getattr(self.server, "_usage_db", None)

    # -- concrete -> abstract
    def token(self, kind, conc):
        if conc is None:
            return ABSENT
        if not isinstance(conc, str):
            return "#" + json.dumps(conc, separators=(",", ":"))
        T = self.tokens
        if conc in T.rev[kind]:
            return T.rev[kind][conc]
        pool = self._pools.get(kind)
        if pool is not None:
            free = [t for t in pool if t not in T.fwd[kind]]
            if not free:
                self.cut = "more %s values than the trace constants provide" % kind
                return T.tok(kind, conc)
            T.define(kind, free[0], conc)
            return free[0]
        if kind == "mood":
            if conc in ("happy", "lonely", "scary", "errory"):
                T.define(kind, conc, conc)
                return conc
            if conc == "":
                T.define(kind, "empty", "")
                return "empty"
        return T.tok(kind, conc)

    def abstract_msg(self, d):
        m = msg0()
        if isinstance(d.get("type"), str):
            m["type"] = d["type"]
        elif "type" in d:
            return None
        for f, kind in MSG_KIND.items():
            key = {"cv": "client_version", "appid": "appid"}.get(f, f)
            if key not in d:
                continue
            v = d[key]
            if f == "cv":
                if isinstance(v, (list, tuple)) and len(v) == 2 and all(isinstance(x, str) for x in v):
                    conc = "|".join(v)
                    t = self.tokens.rev["cv"].get(conc)
                    if t is None:
                        t = "v%d" % (len(self.tokens.fwd["cv"]) + 1)
                        self.tokens.define("cv", t, conc)
                    m["cv"] = t
                else:
                    return None
            else:
                if v is None:
                    return None     # a JSON null is not an absent key
                m[f] = self.token(kind, v)
        return m

    # -- one protocol step
    def name_of(self, proto, create=False):
        n = self._names.get(id(proto))
        if n is None and create:
            n = "c%d" % (len(self._names) + 1)
            self._names[id(proto)] = n
            self.conn_names = tuple(sorted(set(self.conn_names) | {n}))
        return n

    def conn_flags(self):
        r = D.Driver.conn_flags(self)
        return r

    def run_step(self, e, call, proto):
        """returns the exception the call raised (re-raised by the caller)"""
        if self.cut:
            try:
                call()
                return None
            except Exception as ex:
                return ex
        cur = self.read_disk()
        if self.last is not None and cur != self.last:
            self.cut = "the stored state was changed outside the protocol"
            return self.run_step(e, call, proto)
        self._begin_step()
        gen_before = self.tokens.gen
        exc = None
        _depth[0] += 1
        try:
            call()
        except Exception as ex:
            exc = ex
        finally:
            _depth[0] -= 1
        st = self._step
        self._step = None
        err = ABSENT if exc is None else type(exc).__name__
        if exc is not None and e["c"] in self.protos:
            self.protos.pop(e["c"], None)      # autobahn fails the connection
        if e["k"] == "Cmd":
            if self.tokens.gen > gen_before:
                e["gid"] = "g%d" % self.tokens.gen
            for f in st["out"]:
                if f["type"] == "allocated":
                    e["pick"] = f["nameplate"]
        self._shadow_update(e, st["out"], err)
        disk = self.read_disk()
        self.last = disk
        o = dict(tid=self.tid, i=len(self.lines) + 1, e=e, out=st["out"], err=err, tr=st["tr"],
                 db=disk["db"], udb=disk["udb"], now=self.now_ticks(),
                 hid=dict(conn=self.conn_flags(), nextSweep=self.next_sweep, up=True, rebooted=0,
                          gen=self.tokens.gen), pre={})
        if not self.lines:
            empty = dict(db=dict(np=[], nps=[], mb=[], mbs=[], msgs=[], anom=[]),
                         udb=dict(unp=[], umb=[], ucv=[], cur=[]))
            if st["last"] != empty:
                self.cut = "the trace does not start from an empty store"
                return exc
            o["pre"] = dict(db=empty["db"], udb=empty["udb"], now=self.now_ticks(),
                            hid=dict(conn={}, nextSweep=self.next_sweep, up=True, rebooted=0, gen=0))
        self.lines.append(o)
        return exc


class Manager(object):
    """what the process-level stand-ins of driver.py talk to"""

    def __init__(self):
        self.m = D.load_repo()
        self.clock = D.VClock()
        self.clock.now = T0
        self._conns_made = []
        self._fault_armed = False
        self._force_pick = None
        self._step = None
        self.chan_path = self.usage_path = None
        self.cur = None
        import tempfile, shutil
        base = os.environ.get("MBH_TMP") or ("/dev/shm" if os.path.isdir("/dev/shm") else None)
        self.memory_dir = tempfile.mkdtemp(prefix="mbh-testrec-", dir=base)
        atexit.register(lambda: shutil.rmtree(self.memory_dir, ignore_errors=True))

    def _on_commit(self):
        r = self.cur
        if r is not None and r._step is not None:
            r._on_commit()

    def _on_stmt(self):
        self._on_commit()


def install():
    mgr = Manager()
    D._ACTIVE[0] = mgr
    D._rebind([(D._real_time_mod, D._TIME_SHIM), (D._REAL_TIME, D._vtime),
               (D.sqlite3, D._SQLITE_SHIM), (D._REAL_CONNECT, D._vconnect)], D._UNDO)
    server, ws = mgr.m["server"], mgr.m["ws"]
    orig_init = server.Server.__init__

    def init(self, *a, **kw):
        orig_init(self, *a, **kw)
        try:
            r = Rec(self, mgr)
            _by_server[id(self)] = r
            _traces.append(r)
            mgr.cur = r
        except Exception as ex:      # a restructured Server: no traces from it
            sys.stderr.write("testrec: cannot record this server: %r\n" % (ex,))
    server.Server.__init__ = init

    def rec_of(proto):
        try:
            r = _by_server.get(id(proto.factory.server))
        except Exception:
            r = None
        if r is not None:
            mgr.cur = r
        return r

    P = ws.WebSocketServer
    o_open, o_msg, o_close, o_send = P.onOpen, P.onMessage, P.onClose, P.sendMessage

    def onOpen(self, *a, **kw):
        r = rec_of(self)
        if r is None:
            return o_open(self, *a, **kw)
        c = r.name_of(self, create=True)
        r.protos[c] = self
        exc = r.run_step(ev0("Connect", c=c), lambda: o_open(self, *a, **kw), self)
        if exc is not None:
            raise exc

    def onMessage(self, payload, isBinary):
        r = rec_of(self)
        c = r.name_of(self) if r is not None else None
        if r is None or c is None or c not in r.protos:
            return o_msg(self, payload, isBinary)
        try:
            d = json.loads(payload.decode("utf-8"))
            m = r.abstract_msg(d) if isinstance(d, dict) else None
        except Exception:
            d, m = None, None
        if m is None and not r.cut:
            r.cut = "a command the trace format cannot express"
        r._sent = d
        exc = r.run_step(ev0("Cmd", c=c, m=m or msg0()), lambda: o_msg(self, payload, isBinary), self)
        if exc is not None:
            raise exc

    def onClose(self, *a, **kw):
        r = rec_of(self)
        c = r.name_of(self) if r is not None else None
        if r is None or c is None or c not in r.protos:
            return o_close(self, *a, **kw)
        r.protos.pop(c)
        exc = r.run_step(ev0("Drop", c=c), lambda: o_close(self, *a, **kw), self)
        if exc is not None:
            raise exc

    def sendMessage(self, payload, isBinary=False, *a, **kw):
        r = rec_of(self)
        if r is not None and r._step is not None and not r.cut:
            c = r.name_of(self)
            if c is not None:
                try:
                    r._record_frame(c, payload, r._sent)
                except Exception as ex:
                    r.cut = "frame not recordable: %r" % (ex,)
        return o_send(self, payload, isBinary, *a, **kw)
    P.onOpen, P.onMessage, P.onClose, P.sendMessage = onOpen, onMessage, onClose, sendMessage

    # direct calls from the test body end the trace of that server
    def guard(cls, name, find_server):
        orig = getattr(cls, name, None)
        if orig is None:
            return

        def wrapped(self, *a, **kw):
            if _depth[0] == 0:
                for r in _traces[-1:]:
                    if not r.cut and find_server(self, r):
                        r.cut = "direct call of %s.%s by the test" % (cls.__name__, name)
            _depth[0] += 1
            try:
                return orig(self, *a, **kw)
            finally:
                _depth[0] -= 1
        setattr(cls, name, wrapped)
    same_db = lambda obj, r: True     # conservatively: any direct mutation cuts every live trace
    for name in ("claim_nameplate", "release_nameplate", "allocate_nameplate", "open_mailbox", "prune",
                 "free_mailbox", "log_client_version"):
        guard(server.AppNamespace, name, same_db)
    for name in ("open", "add_message", "close", "add_listener", "remove_listener"):
        guard(server.Mailbox, name, same_db)
    for name in ("prune_all_apps", "dump_stats", "stopService", "startService"):
        guard(server.Server, name, same_db)
    atexit.register(dump)


def dump():
    if not OUT:
        return
    from .tracecheck import line_of
    res = []
    for r in _traces:
        if not r.lines:
            continue
        exp = r.to_ticks(r.m["tap"].CHANNEL_EXPIRATION_TIME)
        per = r.to_ticks(r.m["tap"].EXPIRATION_CHECK_PERIOD)
        conns = tuple(sorted(r._names.values()))
        for o in r.lines:
            for c in conns:
                o["hid"]["conn"].setdefault(c, dict(CONN0))
            if o["pre"]:
                o["pre"]["hid"]["conn"] = {c: dict(CONN0) for c in conns}
        res.append(dict(tid=r.tid, src="repo-tests", conns=conns, cut=r.cut,
                        key=[r.cfg.allow_list, r.cfg.usage, r.cfg.blur, r.cfg.welcome_token(), exp, per],
                        lines=[line_of(o) for o in r.lines],
                        tokens={k: dict(v) for k, v in r.tokens.fwd.items()},
                        cfg=dict(allow=r.cfg.allow_list, usage=r.cfg.usage, blur=r.cfg.blur,
                                 welcome=r.cfg.welcome, snapshots=False)))
    with open(OUT, "w") as f:
        json.dump(res, f)


if OUT:
    install()
