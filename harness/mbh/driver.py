"""In-process driver for the real magic-wormhole-mailbox-server code.

Runs the code of /repo/src (imported fresh by the calling interpreter) at
*service level*: Options -> makeService(reactor=MemoryReactorClock) with the
TimerService on a virtual clock, real SQLite files, connections built from the
site's WebSocketServerFactory and fed through onOpen/onMessage/onClose.

One Driver executes one history of abstract events (the events of
spec/MBCore.tla) and returns, per step, what an outside observer sees:
frames, the committed contents of both database files (read through
independent read-only connections), the durable states after every commit
inside the step, the exception that escaped (if any), plus -- for the
conformance tier only -- the connection flags of the implementation.
"""
import json, os, shutil, sqlite3, sys, tempfile, types, itertools
from fractions import Fraction

ABSENT = "~"

# ---------------------------------------------------------------------------
# loading the code under test

_loaded = {}


def load_repo():
    """Import the server modules from /repo/src (the current working tree)."""
    if _loaded:
        return _loaded
    src = os.environ.get("MBH_REPO_SRC", "/repo/src")
    if src not in sys.path:
        sys.path.insert(0, src)
    import twisted.python.log as tlog  # noqa
    if not getattr(tlog, "_mbh_quiet", False):
        # log.err() of a caught sweep failure would otherwise print a traceback
        tlog.startLoggingWithObserver(lambda ev: None, setStdout=False)
        tlog._mbh_quiet = True
    from wormhole_mailbox_server import (server, server_websocket, server_tap,
                                         database, web)
    assert os.path.realpath(server.__file__).startswith(os.path.realpath(src)), server.__file__
    _loaded.update(server=server, ws=server_websocket, tap=server_tap,
                   database=database, web=web)
    return _loaded


def _tuples(conn, sql):
    """fetch rows as plain tuples whatever row factory the connection has"""
    cur = conn.cursor()
    cur.row_factory = None
    try:
        return cur.execute(sql).fetchall()
    finally:
        cur.close()


import time as _real_time_mod
import random as _real_random_mod
_REAL_TIME = _real_time_mod.time
_REAL_CHOICE = _real_random_mod.choice
_REAL_RANDRANGE = _real_random_mod.randrange
_REAL_CONNECT = sqlite3.connect


class VClock(object):
    """The virtual clock of one driver."""

    def __init__(self):
        self.now = 0.0

    def time(self):
        return self.now


# The stand-ins below are installed once per process and delegate to the driver that was created
# last (one history runs at a time); with no driver they behave like the real thing.
_ACTIVE = [None]
_UNDO = []


def _vtime():
    drv = _ACTIVE[0]
    return drv.clock.now if drv is not None else _REAL_TIME()


class _TimeShim(object):
    """stands in for the `time` module inside the code under test"""
    time = staticmethod(_vtime)

    def __getattr__(self, name):
        return getattr(_real_time_mod, name)


def _vchoice(seq):
    """allocate's choice is the one the replayed behaviour made, when there is one"""
    drv = _ACTIVE[0]
    seq = list(seq)
    if drv is None:
        return _REAL_CHOICE(seq)
    if drv._step is not None:
        cs = sorted(str(x) for x in seq)
        drv._step["cands"] = [len(cs)] + cs[:12]
    want = drv._force_pick
    if want is not None and want in seq:
        return want
    return _REAL_CHOICE(seq)


def _vrandrange(*args):
    """random.randrange with the extremes of the range over-represented (every value of the range is
    a legitimate outcome, the extremes are the ones sampling never produces); a replayed behaviour's
    pick is honoured when it lies in the range"""
    drv = _ACTIVE[0]
    if drv is None or len(args) > 2:
        return _REAL_RANDRANGE(*args)
    lo, hi = (0, args[0]) if len(args) == 1 else args
    want = drv._force_pick
    if want is not None and str(want).isascii() and str(want).isdigit() and lo <= int(want) < hi:
        return int(want)
    n = drv._rr_calls = getattr(drv, "_rr_calls", 0) + 1
    r = _real_random_mod.random()
    if hi - lo >= 2 and (n == 1 or (n > 2 and r < 0.25)):
        return lo
    if hi - lo >= 2 and (n == 2 or (n > 2 and r < 0.5)):
        return hi - 1
    return _REAL_RANDRANGE(*args)


class _RandomShim(object):
    """stands in for the `random` module inside the code under test"""
    choice = staticmethod(_vchoice)
    randrange = staticmethod(_vrandrange)
    randint = staticmethod(lambda a, b: _vrandrange(a, b + 1))

    def __getattr__(self, name):
        return getattr(_real_random_mod, name)


_REC_CLASSES = {}


def _rec_class(base):
    """the connection class the code asked for, with the recording hooks on top"""
    if base not in _REC_CLASSES:
        class RecConn(base):
            def commit(self_):
                base.commit(self_)
                drv = _ACTIVE[0]
                if drv is not None:
                    drv._on_commit()

            def execute(self_, *a, **kw):
                drv = _ACTIVE[0]
                if drv is not None and drv._fault_armed and getattr(self_, "_mbh_role", None) == "channel":
                    drv._fault_armed = False
                    raise sqlite3.OperationalError("database is locked")
                return base.execute(self_, *a, **kw)
        _REC_CLASSES[base] = RecConn
    return _REC_CLASSES[base]


def _vconnect(path, *a, **kw):
    drv = _ACTIVE[0]
    if drv is None:
        return _REAL_CONNECT(path, *a, **kw)
    kw["factory"] = _rec_class(kw.get("factory") or sqlite3.Connection)
    if str(path) == ":memory:" and getattr(drv, "memory_dir", None):
        # (the test recorder) a private in-memory database becomes a private file, so that what is
        # committed can be read by an independent connection
        drv.memory_n = getattr(drv, "memory_n", 0) + 1
        path = os.path.join(drv.memory_dir, "mem-%d.sqlite" % drv.memory_n)
    c = _REAL_CONNECT(path, *a, **kw)
    c._mbh_path = str(path)
    drv._conns_made = [x for x in drv._conns_made if getattr(x, "_mbh_role", None)][-4:] + [c]
    # durable changes are looked for at the start of every SQL statement as well: a commit
    # need not go through Connection.commit() (`with db:`, executescript, autocommit mode)
    c.set_trace_callback(lambda stmt, _d=drv: getattr(_d, "_on_stmt", _d._on_commit)())
    if drv.chan_path and os.path.abspath(str(path)) == os.path.abspath(drv.chan_path):
        c._mbh_role = "channel"
    elif drv.usage_path and os.path.abspath(str(path)) == os.path.abspath(drv.usage_path):
        c._mbh_role = "usage"
    return c


_SQLITE_SHIM = types.ModuleType("sqlite3_mbh")
_SQLITE_SHIM.__dict__.update({k: v for k, v in sqlite3.__dict__.items() if not k.startswith("__")})
_SQLITE_SHIM.connect = _vconnect
_TIME_SHIM = _TimeShim()
_RANDOM_SHIM = _RandomShim()


def _code_modules():
    """every loaded module of the package under test (not its tests)"""
    return [m for n, m in list(sys.modules.items())
            if m is not None and (n == "wormhole_mailbox_server" or n.startswith("wormhole_mailbox_server."))
            and ".test" not in n]


def _rebind(mapping, undo):
    """Replace, in the globals of every module of the code under test, each name bound to one of the
    objects in `mapping` (by identity) — however the module imported it (`import time`,
    `import time as t`, `from time import time as now`, a constant taken over into another module).
    `undo` collects (module, name, old value)."""
    for mod in _code_modules():
        for name, val in list(vars(mod).items()):
            for old, new in mapping:
                if val is old:
                    undo.append((mod, name, val))
                    setattr(mod, name, new)
                    break


class Tokens(object):
    """Injective maps abstract token <-> concrete string, per kind."""

    KINDS = ("app", "side", "name", "mbox", "phase", "body", "mood", "id", "cv", "ping")

    def __init__(self, table=None):
        self.fwd = {k: {} for k in self.KINDS}
        self.rev = {k: {} for k in self.KINDS}
        self.gen = 0  # generated mailbox ids seen so far
        self.alias = {}   # kind -> {text SQLite stores for a non-string JSON value -> its "#" token}
        for kind, m in (table or {}).items():
            for tok, conc in m.items():
                # tokens invented for strings the server made up (generated
                # mailbox ids, allocated names, unknown values) are per run
                if tok.startswith("?") or (kind == "mbox" and tok.startswith("g") and tok[1:].isdigit()):
                    continue
                self.define(kind, tok, conc)

    def define(self, kind, tok, conc):
        assert tok != ABSENT
        old = self.fwd[kind].get(tok)
        if old is not None:
            assert old == conc
            return
        assert conc not in self.rev[kind], (kind, tok, conc)
        self.fwd[kind][tok] = conc
        self.rev[kind][conc] = tok

    def conc(self, kind, tok):
        """concrete string for a token (default: a decorated copy of it)."""
        if tok == ABSENT:
            return None
        if tok.startswith("#"):
            # a JSON value that is not a string (number, boolean): "#7" is 7
            v = json.loads(tok[1:])
            if isinstance(v, (bool, int, float)):
                text = ("1" if v else "0") if isinstance(v, bool) else ("%.15g" % v if isinstance(v, float) else str(v))
                self.alias.setdefault(kind, {})[text] = tok
            return v
        if tok not in self.fwd[kind]:
            if (kind == "name" and tok.isdigit()) or kind == "mood":
                # numeric nameplates and moods mean something to the server
                self.define(kind, tok, "" if (kind, tok) == ("mood", "empty") else tok)
            else:
                self.define(kind, tok, "%s:%s" % (kind, tok))
        return self.fwd[kind][tok]

    def tok(self, kind, conc, db=False):
        """token of a concrete value found in a frame or a database row.  A value
        submitted as a JSON number/boolean ("#7") is stored by SQLite's text
        affinity as text; in a database row that text stands for the same value,
        in a frame it is the stringified form "$7" (known finding F10 when the
        server replays it that way)."""
        if conc is None:
            return ABSENT
        if not isinstance(conc, str):
            return "#" + json.dumps(conc, separators=(",", ":"))
        t = self.rev[kind].get(conc)
        if t is not None:
            return t
        al = self.alias.get(kind, {}).get(conc)
        if al is not None:
            return al if db else "$" + al[1:]
        if kind == "mbox":
            # a string the server made up: generated mailbox id, first seen
            self.gen += 1
            t = "g%d" % self.gen
        elif kind == "name" and conc.isascii() and conc.isdigit() and str(int(conc)) == conc and int(conc) > 0:
            t = conc
        else:
            t = "?%s:%s" % (kind, conc)
        self.define(kind, t, conc)
        return t


MSG_FIELDS = ("type", "id", "appid", "side", "cv", "nameplate", "mailbox",
              "phase", "body", "mood", "ping")
MSG_KIND = dict(id="id", appid="app", side="side", cv="cv", nameplate="name",
                mailbox="mbox", phase="phase", body="body", mood="mood", ping="ping")


def msg0(**kw):
    m = {f: ABSENT for f in MSG_FIELDS}
    m.update(kw)
    return m


def ev0(k, **kw):
    e = dict(k=k, c=ABSENT, m=msg0(), d=0, gid=ABSENT, pick=ABSENT, fault=False, at=0)
    e.update(kw)
    return e


def frame0(**kw):
    f = dict(to=ABSENT, type=ABSENT, id=ABSENT, nameplate=ABSENT, mailbox=ABSENT,
             side=ABSENT, phase=ABSENT, body=ABSENT, rx=-1, names=[], error=ABSENT,
             pong=ABSENT, w=ABSENT, ci=0, synced=True)
    f.update(kw)
    return f


CONN0 = dict(up=False, bound=False, app=ABSENT, side=ABSENT, didAllocate=False,
             didClaim=False, npId=ABSENT, didRelease=False, held=False,
             mboxId=ABSENT, listening=False, didClose=False)


def welcome_token(w):
    """an ASCII token for the `welcome` payload (the notices the server is configured to send)"""
    if not w:
        return "w0"
    import hashlib
    return "w:" + hashlib.sha1(json.dumps(w, sort_keys=True).encode("utf-8")).hexdigest()[:10]


class Config(object):
    def __init__(self, allow_list=True, usage=False, blur=0, unit=60, welcome=None,
                 snapshots=False, extra_args=()):
        self.allow_list = allow_list
        self.usage = usage
        self.blur = blur          # in model ticks (0 = none)
        self.unit = Fraction(unit)  # seconds per model tick
        self.welcome = welcome or {}   # e.g. {"motd": "hello"}
        self.snapshots = snapshots
        self.extra_args = tuple(extra_args)

    def welcome_token(self):
        return welcome_token(self.welcome)


class Driver(object):
    def __init__(self, cfg, tokens=None, workdir=None, conns=("c1", "c2", "c3")):
        self.cfg = cfg
        self.m = load_repo()
        self.tokens = tokens or Tokens()
        self.own_dir = workdir is None
        base = os.environ.get("MBH_TMP") or ("/dev/shm" if os.path.isdir("/dev/shm") else None)
        self.dir = workdir or tempfile.mkdtemp(prefix="mbh-", dir=base)
        self.chan_path = os.path.join(self.dir, "relay.sqlite")
        self.usage_path = os.path.join(self.dir, "usage.sqlite") if cfg.usage else None
        self.clock = VClock()
        self.conn_names = tuple(conns)
        self.protos = {}     # conn name -> protocol (up connections)
        self.parent = None   # the running service
        self.server = None
        self.tclock = None
        self.next_sweep = 0   # model ticks
        self.rebooted = 0
        self.up = False
        self.sweeps_seen = 0
        self._ro = {}
        self._shadow = {}     # conn name -> protocol-level flags (fallback for conn_flags)
        self._conns_made = []  # sqlite connections handed to the code under test (most recent last)
        self._step = None     # per-step recording state
        self._fault_armed = False
        self._install_shims()

    # -- shims ------------------------------------------------------------
    def _install_shims(self):
        """However the modules of the code under test got hold of the clock, the random source and
        sqlite3 (`import time`, `import time as t`, `from time import time as now`, ...), they now get
        the harness's stand-ins; imports made inside functions see the real modules, so the real
        `time.time` is replaced as well while a driver exists."""
        self._force_pick = None
        _ACTIVE[0] = self
        _rebind([(_real_time_mod, _TIME_SHIM), (_REAL_TIME, _vtime),
                 (_real_random_mod, _RANDOM_SHIM), (_REAL_CHOICE, _vchoice), (_REAL_RANDRANGE, _vrandrange),
                 (sqlite3, _SQLITE_SHIM), (_REAL_CONNECT, _vconnect)], _UNDO)
        _real_time_mod.time = _vtime
        _real_random_mod.choice = _vchoice

    def close(self):
        try:
            self._abandon()
        finally:
            for c in self._ro.values():
                c.close()
            self._ro = {}
            if _ACTIVE[0] is self:
                _ACTIVE[0] = None
                for (mod, name, val) in reversed(_UNDO):
                    setattr(mod, name, val)
                del _UNDO[:]
                _real_time_mod.time = _REAL_TIME
                _real_random_mod.choice = _REAL_CHOICE
            if self.own_dir:
                shutil.rmtree(self.dir, ignore_errors=True)

    # -- time -------------------------------------------------------------
    def to_ticks(self, secs):
        if secs is None:
            return -1
        q = Fraction(secs).limit_denominator(10 ** 6) / self.cfg.unit
        if q.denominator != 1:
            return -2 - int(q)   # not representable: shows up as a mismatch
        return int(q)

    def now_ticks(self):
        return self.to_ticks(self.clock.now)

    # -- reading the databases -------------------------------------------
    def _ro_conn(self, path):
        c = self._ro.get(path)
        if c is None:
            c = sqlite3.connect("file:%s?mode=ro" % path, uri=True, isolation_level=None)
            self._ro[path] = c
        return c

    def _drop_ro(self):
        for c in self._ro.values():
            c.close()
        self._ro = {}

    def read_channel(self, conn=None):
        T = self.tokens
        if conn is None:
            if not os.path.exists(self.chan_path):
                return dict(np=[], nps=[], mb=[], mbs=[], msgs=[], anom=[])
            conn = self._ro_conn(self.chan_path)
        q = lambda sql: _tuples(conn, sql)
        anom = set()
        byid = {}
        np, seen = [], set()
        for (rid, app, name, mbox) in q("SELECT id, app_id, name, mailbox_id FROM nameplates ORDER BY id"):
            key = (T.tok("app", app), T.tok("name", name))
            byid[rid] = key
            if key in seen:
                anom.add("dup-np")
            seen.add(key)
            np.append(dict(app=key[0], name=key[1], mbox=T.tok("mbox", mbox)))
        nps, seen = [], set()
        for (npid, claimed, side, added) in q("SELECT nameplates_id, claimed, side, added FROM nameplate_sides ORDER BY rowid"):
            if npid not in byid:
                anom.add("orphan-nps")
                continue
            a, n = byid[npid]
            s = T.tok("side", side)
            if (a, n, s) in seen:
                anom.add("dup-nps")
            seen.add((a, n, s))
            nps.append(dict(app=a, name=n, side=s, claimed=bool(claimed), added=self.to_ticks(added)))
        mb, ids = [], {}
        for (app, mid, updated, forNp) in q("SELECT app_id, id, updated, for_nameplate FROM mailboxes ORDER BY rowid"):
            i = T.tok("mbox", mid)
            if i in ids:
                anom.add("dup-mb")
            ids[i] = T.tok("app", app)
            mb.append(dict(app=ids[i], id=i, updated=self.to_ticks(updated), forNp=bool(forNp)))
        mbs, seen = [], set()
        for (mid, opened, side, added, mood) in q("SELECT mailbox_id, opened, side, added, mood FROM mailbox_sides ORDER BY rowid"):
            i = T.tok("mbox", mid)
            if i not in ids:
                anom.add("orphan-mbs")
            s = T.tok("side", side)
            if (i, s) in seen:
                anom.add("dup-mbs")
            seen.add((i, s))
            mbs.append(dict(mbox=i, side=s, opened=bool(opened), added=self.to_ticks(added),
                            mood=T.tok("mood", mood)))
        msgs = []
        for (app, mid, side, phase, body, rx, msgid) in q(
                "SELECT app_id, mailbox_id, side, phase, body, server_rx, msg_id FROM messages ORDER BY rowid"):
            msgs.append(dict(app=T.tok("app", app), mbox=T.tok("mbox", mid), side=T.tok("side", side),
                             phase=T.tok("phase", phase, db=True), body=T.tok("body", body, db=True),
                             rx=self.to_ticks(rx), id=T.tok("id", msgid, db=True)))
        return dict(np=np, nps=nps, mb=mb, mbs=mbs, msgs=msgs, anom=sorted(anom))

    def read_usage(self, conn=None):
        T = self.tokens
        if not self.cfg.usage:
            return dict(unp=[], umb=[], ucv=[], cur=[])
        if conn is None:
            if not os.path.exists(self.usage_path):
                return dict(unp=[], umb=[], ucv=[], cur=[])
            conn = self._ro_conn(self.usage_path)
        q = lambda sql: _tuples(conn, sql)
        tt = self.to_ticks
        dur = lambda x: -1 if x is None else tt(x)
        unp = [dict(app=T.tok("app", a), started=tt(st), waiting=dur(w), total=dur(tot), result=str(res))
               for (a, st, tot, w, res) in q("SELECT app_id, started, total_time, waiting_time, result FROM nameplates ORDER BY rowid")]
        umb = [dict(app=T.tok("app", a), forNp=bool(f), started=tt(st), waiting=dur(w), total=dur(tot), result=str(res))
               for (a, f, st, tot, w, res) in q("SELECT app_id, for_nameplate, started, total_time, waiting_time, result FROM mailboxes ORDER BY rowid")]
        ucv = []
        for (a, s, t, impl, ver) in q("SELECT app_id, side, connect_time, implementation, version FROM client_versions ORDER BY rowid"):
            cv = ABSENT if impl is None and ver is None else self.tokens.tok("cv", "%s|%s" % (impl, ver))
            ucv.append(dict(app=T.tok("app", a), side=T.tok("side", s), t=tt(t), cv=cv))
        cur = [dict(rebooted=tt(rb), updated=tt(up), blur=(0 if bl is None else tt(bl)), conns=int(cn))
               for (rb, up, bl, cn) in q("SELECT rebooted, updated, blur_time, connections_websocket FROM current")]
        return dict(unp=unp, umb=umb, ucv=ucv, cur=cur)

    def read_disk(self):
        return dict(db=self.read_channel(), udb=self.read_usage())

    # -- recording --------------------------------------------------------
    quiet = False    # set-up phases that are not recorded: no snapshots, no database reads

    def _begin_step(self):
        self._step = dict(out=[], tr=[], last=None if self.quiet else self.read_disk(), files=[],
                          gen0=self.tokens.gen)
        if self.quiet:
            return
        if self.cfg.snapshots:
            self._step["files0"] = self._copy_files()

    def _copy_files(self):
        r = {}
        for p in (self.chan_path, self.usage_path):
            if p and os.path.exists(p):
                with open(p, "rb") as f:
                    r[p] = f.read()
        return r

    def _on_commit(self):
        st = self._step
        if st is None or st["last"] is None or self._in_hook:
            return
        self._in_hook = True
        try:
            self._on_commit2(st)
        finally:
            self._in_hook = False

    _in_hook = False

    def _on_commit2(self, st):
        cur = self.read_disk()
        if cur != st["last"]:
            st["last"] = cur
            st["tr"].append(cur)
            if self.cfg.snapshots:
                st["files"].append(self._copy_files())

    def _synced(self):
        srv = self.server
        if srv is None:
            return True
        try:
            dbs = [srv._db] + ([srv._usage_db] if srv._usage_db is not None else [])
        except AttributeError:      # restructured Server: fall back to the connections the shim handed out
            dbs = [c for c in self._conns_made if c is not None]
        if not any(d.in_transaction for d in dbs):
            return True
        # something may be pending: compare what the server sees with the files
        chan = [c for c in dbs if getattr(c, "_mbh_role", None) == "channel"]
        usag = [c for c in dbs if getattr(c, "_mbh_role", None) == "usage"]
        see = dict(db=self.read_channel(chan[0]) if chan else self.read_channel(),
                   udb=self.read_usage(usag[0]) if usag else self.read_usage())
        return see == self.read_disk()

    _send_fail = None

    def _send(self, cname, payload):
        """stands in for the protocol's sendMessage"""
        if self._send_fail is not None and cname == self._send_fail:
            # what autobahn does for a protocol that is no longer OPEN
            from autobahn.exception import Disconnected
            raise Disconnected("Attempt to send on a closed protocol")
        self._record_frame(cname, payload, self._sent)

    def _record_frame(self, cname, payload, sent_msg):
        T = self.tokens
        st = self._step
        try:
            d = json.loads(payload.decode("utf-8"))
        except Exception:
            d = {"type": "?undecodable"}
        ty = d.get("type")
        self._on_commit()
        f = frame0(to=cname, type=ty if isinstance(ty, str) else "?", ci=len(st["tr"]),
                   synced=self._synced())
        ok = isinstance(ty, str) and isinstance(d.get("server_tx"), float)
        if ty == "welcome":
            w = d.get("welcome")
            f["w"] = welcome_token(w) if isinstance(w, dict) else "?"
        elif ty == "ack":
            f["id"] = T.tok("id", d.get("id"))
        elif ty == "pong":
            f["pong"] = T.tok("ping", d.get("pong"))
        elif ty == "nameplates":
            lst = d.get("nameplates")
            names = []
            if isinstance(lst, list) and all(isinstance(x, dict) and set(x) == {"id"} for x in lst):
                names = [T.tok("name", x["id"]) for x in lst]
                if len(set(names)) != len(names):
                    names = names + ["?dup"]
            else:
                names = ["?malformed"]
            f["names"] = sorted(names)
        elif ty == "allocated":
            f["nameplate"] = T.tok("name", d.get("nameplate"))
        elif ty == "claimed":
            f["mailbox"] = T.tok("mbox", d.get("mailbox"))
        elif ty == "message":
            f.update(side=T.tok("side", d.get("side")), phase=T.tok("phase", d.get("phase")),
                     body=T.tok("body", d.get("body")), id=T.tok("id", d.get("id")),
                     rx=self.to_ticks(d.get("server_rx")))
        elif ty == "error":
            f["error"] = d.get("error") if isinstance(d.get("error"), str) else "?"
            ok = ok and (d.get("orig") == sent_msg)
        elif ty in ("released", "closed"):
            pass
        else:
            ok = False
        if not ok:
            f["type"] = "?bad:" + f["type"]
        st["out"].append(f)

    # -- service life cycle ----------------------------------------------
    def _argv(self):
        cfg = self.cfg
        argv = ["--channel-db=" + self.chan_path, "--port=tcp:0"]
        if cfg.usage:
            argv.append("--usage-db=" + self.usage_path)
        if cfg.blur:
            secs = cfg.blur * cfg.unit
            assert secs.denominator == 1
            argv.append("--blur-usage=%d" % int(secs))
        if not cfg.allow_list:
            argv.append("--disallow-list")
        for k, v in sorted(cfg.welcome.items()):
            argv.append("--%s=%s" % ({"motd": "motd", "error": "signal-error",
                                      "current_cli_version": "advertise-version"}[k], v))
        return argv + list(cfg.extra_args)

    def _start(self):
        from twisted.internet.task import Clock
        from twisted.internet.testing import MemoryReactorClock
        from twisted.application.internet import TimerService
        tap = self.m["tap"]
        opts = tap.Options()
        opts.parseOptions(self._argv())
        self.rebooted = self.now_ticks()
        parent = tap.makeService(opts, reactor=MemoryReactorClock())
        self.tclock = Clock()
        self.tclock.rightNow = float(self.clock.now)
        site = None

        def walk(svc):
            yield svc
            try:
                kids = list(svc)
            except TypeError:
                kids = []
            for k in kids:
                for x in walk(k):
                    yield x
        self.server = None
        for svc in walk(parent):
            if isinstance(svc, TimerService):
                svc.clock = self.tclock
                self.period_secs = svc.step
            elif isinstance(svc, self.m["server"].Server):
                self.server = svc
            elif hasattr(svc, "factory") and site is None:
                site = svc.factory
        self.parent = parent
        self.factory = self._find_ws_factory(site)
        drv = self
        orig_prune = self.server.prune_all_apps

        def counting_prune(*a, **kw):
            drv.sweeps_seen += 1
            try:
                return orig_prune(*a, **kw)
            except Exception as ex:
                # expire() catches and logs this; the harness reports it as
                # the internal error of the sweep step
                drv._sweep_err = type(ex).__name__
                raise
        self.server.prune_all_apps = counting_prune
        self.protos = {}
        parent.startService()      # fires the first expire() immediately
        self.up = True
        self.next_sweep = self.now_ticks() + self.to_ticks(self.period_secs)

    def _find_ws_factory(self, site):
        """the WebSocket factory of the running service: it hangs off the site's /v1 resource; if the
        assembly was restructured, it is whichever autobahn server factory was built for this server"""
        try:
            return site.resource.children[b"v1"]._factory
        except Exception:
            pass
        import gc
        from autobahn.twisted.websocket import WebSocketServerFactory
        cands = [o for o in gc.get_objects() if isinstance(o, WebSocketServerFactory)]
        mine = [o for o in cands if any(v is self.server for v in vars(o).values())]
        if not mine:
            raise RuntimeError("no websocket factory found for the running service")
        return mine[-1]

    def _abandon(self):
        """Drop every Python object of the running server (process death)."""
        srv = self.server
        if srv is not None:
            for d in list(self._conns_made):
                try:
                    d.close()
                except Exception:
                    pass
            self._conns_made = []
        self.parent = self.server = self.tclock = None
        self.protos = {}
        self.up = False

    # -- connection flags (conformance tier only) -------------------------
    def conn_flags(self):
        """The implementation's per-connection flags, read from its private attributes.  A refactoring
        may rename or restructure them: whatever cannot be read is taken from the driver's own
        protocol-level book-keeping (shadow), so the harness keeps working and only the conformance
        comparison may report drift."""
        T = self.tokens
        r = {}
        for cname in self.conn_names:
            p = self.protos.get(cname)
            if p is None:
                r[cname] = dict(CONN0)
                continue
            sh = self._shadow.get(cname, dict(CONN0, up=True))
            try:
                app = p._app
                r[cname] = dict(
                    up=True, bound=app is not None,
                    app=T.tok("app", app._app_id) if app is not None else ABSENT,
                    side=T.tok("side", p._side) if app is not None else ABSENT,
                    didAllocate=bool(p._did_allocate), didClaim=bool(p._did_claim),
                    npId=T.tok("name", p._nameplate_id), didRelease=bool(p._did_release),
                    held=p._mailbox is not None, mboxId=T.tok("mbox", p._mailbox_id),
                    listening=bool(p._listening), didClose=bool(p._did_close))
            except AttributeError:
                r[cname] = dict(sh)
        return r

    def _shadow_update(self, e, out, err):
        """protocol-level view of a connection, from the commands sent and the answers seen"""
        k, c = e["k"], e["c"]
        if k == "Connect":
            self._shadow[c] = dict(CONN0, up=True)
            return
        if k == "Drop" or err != ABSENT:
            self._shadow.pop(c, None)
            return
        if k != "Cmd":
            return
        sh = self._shadow.setdefault(c, dict(CONN0, up=True))
        m = e["m"]
        errs = [f["error"] for f in out if f["type"] == "error" and f["to"] == c]
        proto_err = bool(errs) and errs[0] not in ("crowded", "reclaimed")
        if proto_err:
            return
        ty = m["type"]
        if ty == "bind":
            sh.update(bound=True, app=m["appid"], side=m["side"])
        elif ty == "allocate":
            sh["didAllocate"] = True
        elif ty == "claim":
            sh.update(didClaim=True, npId=m["nameplate"])
        elif ty == "release":
            sh["didRelease"] = True
        elif ty == "open":
            sh["mboxId"] = m["mailbox"]
            sh["held"] = sh["listening"] = not errs
        elif ty == "close" and not errs:
            sh.update(didClose=True, held=False, listening=False)

    def listeners(self):
        """(app, mailbox, conn) triples registered in the server's Mailbox objects."""
        r = set()
        if self.server is None:
            return r
        byproto = {id(p): n for n, p in self.protos.items()}
        for app_id, app in self.server._apps.items():
            for mid, mb in app._mailboxes.items():
                for h in mb._listeners:
                    r.add((self.tokens.tok("app", app_id), self.tokens.tok("mbox", mid),
                           byproto.get(id(h), "?stale")))
        return r

    # -- events -----------------------------------------------------------
    def concrete_msg(self, m):
        T = self.tokens
        d = {}
        if m["type"] != ABSENT:
            d["type"] = m["type"]
        for f in MSG_FIELDS:
            if f == "type" or m[f] == ABSENT:
                continue
            if f == "cv":
                c = T.conc("cv", m[f])
                if not isinstance(c, str):
                    d["client_version"] = c      # "#[1]", "#{}": not a pair
                    continue
                d["client_version"] = c.split("|", 1) if "|" in c else [c, c]
                T.rev["cv"].setdefault("|".join(d["client_version"]), m[f])
            elif f == "appid":
                d["appid"] = T.conc("app", m[f])
            else:
                d[f] = T.conc(MSG_KIND[f], m[f])
        return d

    def step(self, e, extra_json=None):
        """Execute one abstract event; return the observation record."""
        k = e["k"]
        self._begin_step()
        self._sweep_err = None
        st = self._step
        err = ABSENT
        crash_at = None
        if k == "Connect":
            p = self.factory.buildProtocol(None)
            cname = e["c"]
            p.sendMessage = lambda payload, isBinary=False, _c=cname: self._send(_c, payload)
            self._sent = None
            self.protos[cname] = p
            err = self._guard(p.onOpen, cname)
        elif k in ("Cmd", "CrashInCmd"):
            cname = e["c"]
            p = self.protos[cname]
            d = self.concrete_msg(e["m"])
            if extra_json:
                d.update(extra_json)
            self._sent = d
            self._force_pick = None
            self._send_fail = None
            if e["pick"] != ABSENT and e["m"]["type"] == "add":
                # the `pick` of an add: a connection in its closing handshake, sends to it fail
                self._send_fail = e["pick"]
            elif e["pick"] != ABSENT:
                self._force_pick = self.tokens.conc("name", e["pick"])
            try:
                err = self._guard(lambda: p.onMessage(json.dumps(d).encode("utf-8"), False), cname)
            finally:
                self._send_fail = None
            if k == "CrashInCmd":
                crash_at = e["at"]
        elif k == "Drop":
            p = self.protos.pop(e["c"])
            err = self._guard(lambda: p.onClose(True, 1000, ""), None)
        elif k == "Advance":
            self.clock.now = float(Fraction(self.clock.now).limit_denominator(10 ** 6) + e["d"] * self.cfg.unit)
        elif k in ("Sweep", "CrashInSweep"):
            before = self.sweeps_seen
            if e.get("fault"):
                self._fault_armed = True
            try:
                # the timer's own idea of the instant may differ from ours in the last
                # float digit (it adds the period to a float start time)
                target = self.clock.now
                due = [c.getTime() for c in self.tclock.getDelayedCalls()]
                if due and abs(min(due) - target) < 1e-4:
                    target = max(target, min(due))
                self.tclock.advance(target - self.tclock.seconds())
            except Exception as ex:   # pragma: no cover
                err = type(ex).__name__
            self._fault_armed = False
            if self._sweep_err is not None and not e.get("fault"):
                err = self._sweep_err
            if self.sweeps_seen == before:
                err = "NoSweep"
            elif k == "Sweep":
                self.next_sweep = self.now_ticks() + self.to_ticks(self.period_secs)
            if k == "CrashInSweep":
                crash_at = e["at"]
        elif k == "Stop":
            for cname in list(self.protos):
                p = self.protos.pop(cname)
                self._guard(lambda: p.onClose(False, 1006, "server stopping"), None)
            try:
                self.parent.stopService()
            except Exception as ex:   # pragma: no cover
                err = type(ex).__name__
            self._abandon()
        elif k == "Crash":
            self._abandon()
        elif k == "Start":
            try:
                self._start()
                if self._sweep_err is not None:
                    err = self._sweep_err
            except Exception as ex:
                err = type(ex).__name__
                self._abandon()
        else:
            raise ValueError(k)
        if crash_at is not None and len(st["tr"]) == 0:
            # nothing durable happened inside the step: there is no crash point
            # inside it; it is an ordinary step (the caller crashes afterwards)
            e["k"] = "Cmd" if k == "CrashInCmd" else "Sweep"
            e["at"] = 0
            crash_at = None
            if k == "CrashInSweep" and err == ABSENT:
                self.next_sweep = self.now_ticks() + self.to_ticks(self.period_secs)
        if crash_at is not None:
            # what the full execution chose at random is part of the event
            if self.tokens.gen > st["gen0"]:
                e["gid"] = "g%d" % (st["gen0"] + 1)
            for f in st["out"]:
                if f["type"] == "allocated":
                    e["pick"] = f["nameplate"]
            # the process died after the crash_at-th durable change of this step
            assert self.cfg.snapshots
            crash_at = min(crash_at, len(st["tr"]) - 1)
            e["at"] = crash_at
            self._abandon()
            self._drop_ro()
            files = st["files0"] if crash_at == 0 else st["files"][crash_at - 1]
            for p in (self.chan_path, self.usage_path):
                if p and p in files:
                    with open(p, "wb") as f:
                        f.write(files[p])
                elif p and os.path.exists(p):
                    os.unlink(p)
            st["tr"] = st["tr"][:crash_at]
            st["out"] = [f for f in st["out"] if f["ci"] <= crash_at]
            err = "crash"
            # a mailbox id generated inside the step that is neither in the
            # surviving files nor in a frame that was sent was never seen by
            # anybody: forget its token
            T = self.tokens
            while T.gen > st["gen0"]:
                tok = "g%d" % T.gen
                d = self.read_channel()
                seen = {r["mbox"] for r in d["np"]} | {r["id"] for r in d["mb"]} | \
                       {r["mbox"] for r in d["mbs"]} | {r["mbox"] for r in d["msgs"]} | \
                       {f["mailbox"] for f in st["out"]}
                if tok in seen:
                    break
                conc = T.fwd["mbox"].pop(tok)
                del T.rev["mbox"][conc]
                T.gen -= 1
        self._step = None
        if e["k"] in ("Stop", "Crash", "Start", "CrashInCmd", "CrashInSweep") and (err == "crash" or e["k"] != "CrashInCmd"):
            self._shadow = {}
        else:
            self._shadow_update(e, st["out"], err)
        if self.quiet:
            return dict(e=e, out=st["out"], err=err, tr=[], db=None, udb=None, cands=[], now=self.now_ticks(), hid=None)
        disk = self.read_disk()
        obs = dict(e=e, out=st["out"], err=err, tr=st["tr"], db=disk["db"], udb=disk["udb"], cands=st.get("cands", []),
                   now=self.now_ticks(),
                   hid=dict(conn=self.conn_flags(), nextSweep=self.next_sweep, up=self.up,
                            rebooted=self.rebooted, gen=self.tokens.gen))
        return obs

    def _guard(self, fn, cname):
        try:
            fn()
            return ABSENT
        except Exception as ex:
            # Twisted logs the failure and drops the connection
            if cname is not None:
                p = self.protos.pop(cname, None)
                if p is not None:
                    try:
                        p.onClose(False, 1011, "internal error")
                    except Exception:
                        pass
            return type(ex).__name__
