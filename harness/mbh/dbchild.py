"""Child process for C19/C20: run one database.py entry point on a path and
kill the process (os._exit) at the k-th intercepted file-system / SQL step.

usage: dbchild.py <repo-src> <entry> <path> <crash_at|-1>
entry: get-channel | get-usage | create-channel | create-usage | open
Prints one JSON line: {"result": "ok" | "<exception class>", "steps": N}
(nothing is printed by a killed run; its exit status is 9).
"""
import json, os, sys, types


def main():
    src, entry, path, crash_at = sys.argv[1], sys.argv[2], sys.argv[3], int(sys.argv[4])
    sys.path.insert(0, src)
    import warnings
    warnings.simplefilter("ignore")
    import sqlite3, tempfile, shutil
    from wormhole_mailbox_server import database

    count = [0]
    labels = []

    def point(label):
        """an instant at which the process may die"""
        count[0] += 1
        labels.append(label)
        if count[0] == crash_at:
            os._exit(9)

    class Conn(sqlite3.Connection):
        def commit(self):
            point("before-commit")
            sqlite3.Connection.commit(self)
            point("after-commit")

        def close(self):
            sqlite3.Connection.close(self)
            point("after-close")

    def trace(stmt):
        point("sql:" + stmt.strip().split("\n")[0][:40])

    shim = types.ModuleType("sqlite3_child")
    shim.__dict__.update({k: v for k, v in sqlite3.__dict__.items() if not k.startswith("__")})

    def connect(p, *a, **kw):
        kw.setdefault("factory", Conn)
        c = sqlite3.connect(p, *a, **kw)
        c.set_trace_callback(trace)
        point("after-connect")
        return c
    shim.connect = connect
    database.sqlite3 = shim

    real_rename, real_mkstemp, real_copy = os.rename, tempfile.mkstemp, shutil.copy

    def rename(a, b):
        point("before-rename")
        real_rename(a, b)
        point("after-rename")

    def mkstemp(*a, **kw):
        r = real_mkstemp(*a, **kw)
        point("after-mkstemp")
        return r

    def copy(a, b):
        point("before-copy")
        # a copy is not atomic: the process may die when only part of it is written
        with open(a, "rb") as f:
            raw = f.read()
        with open(b, "wb") as f:
            f.write(raw[:max(1, len(raw) // 2)])
        point("mid-copy")
        r = real_copy(a, b)
        point("after-copy")
        return r
    osshim = types.ModuleType("os_child")
    osshim.__dict__.update({k: v for k, v in os.__dict__.items() if not k.startswith("__")})
    osshim.rename = rename
    database.os = osshim
    tshim = types.ModuleType("tempfile_child")
    tshim.__dict__.update({k: v for k, v in tempfile.__dict__.items() if not k.startswith("__")})
    tshim.mkstemp = mkstemp
    database.tempfile = tshim
    sshim = types.ModuleType("shutil_child")
    sshim.__dict__.update({k: v for k, v in shutil.__dict__.items() if not k.startswith("__")})
    sshim.copy = copy
    database.shutil = sshim

    fn = {"get-channel": database.create_or_upgrade_channel_db,
          "get-usage": database.create_or_upgrade_usage_db,
          "create-channel": database.create_channel_db,
          "create-usage": database.create_usage_db,
          "open": database.open_existing_db}[entry]
    try:
        db = fn(path)
        # what the server does next with the connection: read the version
        if db is not None:
            if entry != "open":
                db.execute("SELECT * FROM version").fetchall()
            sqlite3.Connection.close(db)
        result = "ok"
    except Exception as ex:
        result = type(ex).__name__
    sys.stdout.write(json.dumps(dict(result=result, steps=count[0], labels=labels)) + "\n")
    sys.stdout.flush()
    os._exit(0)


if __name__ == "__main__":
    main()
