"""What each property's check runs: TLC instances of MBServer, simulation
sources for spec->code replay, random-history profiles for code->spec traces,
and the clauses of MBProps that decide the property."""

# ---------------------------------------------------------------------------
# TLC instances (constants of spec/MBServer.tla).  Values are TLA+ text; a
# value starting with "<-" names a definition of spec/mc/MC.tla.
BASE = dict(
    Apps='{"a1"}', AppOrder='<- cAppOrder1', Sides='{"s1", "s2"}', Conns='{"c1", "c2"}',
    Class1='<- cClass1', Class2='<- cClass2', Class3='<- cClass3', LongNames='{"1000"}',
    OtherNames='{"x"}', ClaimNames='{"1", "x"}', PickSet='{"1", "2"}',
    ClientMbox='{"m1"}', GenMbox='<- cGen2', EXP='11', PERIOD='5', AllowList='TRUE',
    UsageOn='FALSE', Blur='0', Welcome='"w0"', MsgIds='{"~"}', AddMsgs='<- cAdd1',
    MoodSet='{"~"}', CVs='{"~"}', Malformed='FALSE', AdvanceSteps='{5}', MaxTime='0',
    MaxMsgs='1', MaxUsage='0', MaxDepth='100', WithStop='FALSE', WithCrash='FALSE',
    WithCrashIn='FALSE', WithFault='FALSE', WithTime='FALSE', WithSendFail='FALSE', Stringified='{}', BadMoods='{}')

S3 = '{"s1", "s2", "s3"}'
INSTANCES = {
    # one app, three sides, no clock: the protocol core
    "core": dict(Sides=S3),
    # two apps sharing every identifier string (F2 is reachable here)
    "apps": dict(Apps='{"a1", "a2"}', AppOrder='<- cAppOrder2'),
    # clock, sweeps, stop/start
    "time": dict(WithTime='TRUE', WithStop='TRUE', MaxTime='27', AdvanceSteps='{5, 6}',
                 ClientMbox='{"m1"}', GenMbox='<- cGen1'),
    "time2": dict(WithTime='TRUE', WithStop='TRUE', WithFault='TRUE', MaxTime='32',
                  AdvanceSteps='{1, 5}', Apps='{"a1", "a2"}', AppOrder='<- cAppOrder2',
                  ClientMbox='{}', GenMbox='<- cGen2'),
    # crash inside commands and sweeps
    "crash": dict(WithCrashIn='TRUE', WithCrash='TRUE', WithTime='TRUE', MaxTime='17',
                  AdvanceSteps='{5, 12}', GenMbox='<- cGen1'),
    "crashu": dict(WithCrashIn='TRUE', WithCrash='TRUE', WithTime='TRUE', MaxTime='17',
                   AdvanceSteps='{5, 12}', GenMbox='<- cGen1', UsageOn='TRUE', MaxUsage='6'),
    # usage database, blur
    "usage": dict(UsageOn='TRUE', Blur='3', MaxUsage='6', WithTime='TRUE', MaxTime='18',
                  AdvanceSteps='{1, 5, 12}', MoodSet='{"~", "happy", "scary"}', Sides=S3,
                  GenMbox='<- cGen1'),
    "usage7": dict(UsageOn='TRUE', Blur='7', MaxUsage='6', WithTime='TRUE', MaxTime='18',
                   AdvanceSteps='{1, 5, 12}', MoodSet='{"~", "lonely", "errory"}',
                   GenMbox='<- cGen1', CVs='{"~", "v1"}'),
    # allocation with scaled-down classes
    "alloc": dict(Class1='{"1", "2"}', Class2='{"10", "11"}', Class3='{"100"}', LongNames='{"1000", "1001"}',
                  OtherNames='{"x"}', GenMbox='<- cGen3', ClientMbox='{}', Conns='{"c1", "c2", "c3"}',
                  ClaimNames='{"1", "2", "10", "x"}', PickSet='{"1", "2", "10", "11", "100", "1000", "1001"}'),
    "allocnl": dict(Class1='{"1", "2"}', Class2='{"10", "11"}', Class3='{"100"}', LongNames='{"1000", "1001"}',
                    OtherNames='{"x"}', GenMbox='<- cGen3', ClientMbox='{}', Conns='{"c1", "c2", "c3"}',
                    ClaimNames='{"1", "2", "10", "x"}', PickSet='{"1", "2", "10", "11", "100", "1000", "1001"}',
                    AllowList='FALSE'),
    # the full abstract message space: every malformed / out-of-order command
    "proto": dict(Malformed='TRUE', MsgIds='{"~", "i1"}', GenMbox='<- cGen1'),
    "nolist": dict(AllowList='FALSE'),
    # an add may meet a subscriber in its closing handshake (the send to it fails)
    "sendfail": dict(Sides=S3, WithSendFail='TRUE', AddMsgs='<- cAdd2', MaxMsgs='2'),
}

PROPS_ALL = ["P01", "P02", "P03", "P04", "P05", "P06", "P07", "P08", "P09", "P10", "P12", "P13",
             "P15", "P16", "P17", "P18"]


def cfg_text(inst, props, depth=None, extra=None):
    c = dict(BASE)
    c.update(INSTANCES[inst])
    if extra:
        c.update(extra)
    if depth is not None:
        c["MaxDepth"] = str(depth)
    lines = ["SPECIFICATION Spec", "CONSTANTS"]
    for k, v in c.items():
        lines.append("  %s %s" % (k, v) if v.startswith("<-") else "  %s = %s" % (k, v))
    lines += ["CONSTRAINT Constr", "VIEW View", "CHECK_DEADLOCK FALSE", "INVARIANT GhostAgrees",
              "INVARIANT StoreInv", "INVARIANT StoreInvCrash", "INVARIANT ConnInv"]
    if "P13" in props or "P10" in props or "P15" in props:
        # from every reachable state the store can be drained (MBServer!Drains), and draining writes
        # exactly one usage record per stored nameplate / mailbox (MBServer!DrainsUsage)
        lines.append("INVARIANT Drains")
        if c.get("UsageOn") == "TRUE":
            lines.append("INVARIANT DrainsUsage")
    for p in props:
        lines.append("PROPERTY %s" % p)
    return "\n".join(lines) + "\n", c


# ---------------------------------------------------------------------------
# random-history profiles (harness/mbh/gen.py)
PROFILES = {
    "mailbox": dict(apps=["a1"], sides=["s1", "s2"], names=["1", "x"], client_mbox=["m1", "m2"],
                    steps=45, w_stop=0.3, w_crash=0.3, nonstring=0.06, badmood=0.08),
    "fanout": dict(apps=["a1"], sides=["s1", "s2"], names=["1"], client_mbox=["m1"], steps=60,
                   conns=("c1", "c2", "c3", "c4", "c5"), w_stop=0.5, w_crash=0.3, w_connect=5, nonstring=0.06),
    "nameplate": dict(apps=["a1"], sides=["s1", "s2"], names=["1", "2", "x", "y"], client_mbox=["m1"],
                      steps=50),
    "crowd": dict(apps=["a1"], sides=["s1", "s2", "s3", "s4"], names=["1"], client_mbox=["m1"],
                  steps=50, conns=("c1", "c2", "c3", "c4")),
    # ... and then the server is restarted and every side, and a newcomer, comes back
    "crowdrestart": dict(apps=["a1"], sides=["s1", "s2", "s3"], names=["1"], client_mbox=["m1"],
                         steps=30, conns=("c1", "c2", "c3", "c4"), w_stop=0, w_crash=0, final_quiesce=False,
                         probe_after_restart=True),
    "apps": dict(apps=["a1", "a2", "a3"], sides=["s1", "s2"], names=["1", "x"], client_mbox=["m1"],
                 steps=60, conns=("c1", "c2", "c3", "c4"), rebind=0.04),
    "time": dict(apps=["a1", "a2"], sides=["s1", "s2"], names=["1"], client_mbox=["m1"], steps=60,
                 w_advance=8, w_fault=1.0, w_stop=0.4),
    "crash": dict(apps=["a1", "a2"], sides=["s1", "s2"], names=["1"], client_mbox=["m1"], steps=45,
                  w_crashin=4.0, w_crash=1.0, w_advance=4, snapshots=True),
    # short crash-free histories; then, for a few commands, a kill after each durable change and nobody returns
    "boundaries": dict(apps=["a1", "a2"], sides=["s1", "s2"], names=["1", "x"], client_mbox=["m1"], steps=22,
                       w_stop=0, w_crash=0, w_advance=3, final_quiesce=False, crash_boundaries=3,
                       type_weights=dict(claim=4, allocate=2, release=3, close=3, open=2, add=2, list=0)),
    "usage": dict(apps=["a1", "a2"], sides=["s1", "s2", "s3"], names=["1", "x"], client_mbox=["m1"],
                  steps=50, w_advance=5, usage=True),
    "proto": dict(apps=["a1"], sides=["s1", "s2"], names=["1", "x"], client_mbox=["m1"], steps=50,
                  w_malformed=6.0, extra_keys=True, nonstring=0.08, badcv=0.05),
    "alloc": dict(apps=["a1", "a2"], sides=["s1", "s2"], names=["1", "2", "3", "10", "x", "007", "0"], client_mbox=["m1"],
                  steps=40, type_weights=dict(allocate=6, release=2, close=1, add=1),
                  prefill_spec=dict(class1=[0, 5, 8, 9, 9], class2=[0, 0, 3], odd=["007", "0", "x", "1.0"])),
    # scripted clients: wormhole-like flows (allocate/claim/open/add/release/close) with
    # reconnects, re-sent commands, a second connection of one side, intruders, sweeps, restarts
    "script": dict(scripted=True, apps=["a1"], sides=["s1", "s2", "s3"], names=["1", "x"], client_mbox=["m1"],
                   steps=70, conns=("c1", "c2", "c3", "c4", "c5"), w_stop=0.5, w_fault=0, nonstring=0.05, badmood=0.12),
    "script2": dict(scripted=True, apps=["a1", "a2"], sides=["s1", "s2", "s3"], names=["1", "x"], client_mbox=["m1"],
                    steps=70, conns=("c1", "c2", "c3", "c4", "c5"), w_stop=1.0, w_fault=1.0, usage=True),
    # generations of clients re-using one nameplate / one client-chosen mailbox id while connections of
    # earlier generations linger (gen.run_reuse)
    "reuse": dict(scripted="reuse", apps=["a1"], sides=["s1", "s2", "s3"], names=["1", "x"], client_mbox=["m1"],
                  conns=("c1", "c2", "c3", "c4", "c5")),
    "reuseu": dict(scripted="reuse", apps=["a1"], sides=["s1", "s2", "s3"], names=["1", "x"], client_mbox=["m1"],
                   conns=("c1", "c2", "c3", "c4", "c5"), usage=True),
    # a restarted server, clients that bind and sit idle across sweeps, long silent subscriptions (gen.run_idle)
    "idle": dict(scripted="idle", apps=["a1", "a2"], sides=["s1", "s2"], names=["1", "x"], client_mbox=["m1"],
                 conns=("c1", "c2", "c3", "c4")),
    # several apps, each holding some of the short nameplates (the union of all apps' names fills a
    # class that no single app has filled): what one app is offered must not depend on the others
    "allociso": dict(apps=["a1", "a2", "a3"], sides=["s1", "s2"], names=["1", "2", "10", "x"], client_mbox=["m1"],
                     steps=40, conns=("c1", "c2", "c3", "c4"), type_weights=dict(allocate=6, release=2, close=1, add=1),
                     prefill_spec=dict(spread=True, class1=[9, 9, 12, 14], class2=[0, 0, 90, 100])),
    "allocfull": dict(apps=["a1"], sides=["s1", "s2"], names=["1", "10", "100"], client_mbox=["m1"],
                      steps=25, type_weights=dict(allocate=8, release=2, close=1, add=1), final_quiesce=False,
                      only_props=["C04.a", "C04.b", "C04.c"], skip_prefill_lines=True,
                      prefill_spec=dict(class1=[9], class2=[89, 90, 90], class3=[0, 0, 899, 900, 900],
                                        odd=["1000", "1001", "1002", "999999", "0999"])),
    # every 1-, 2- and 3-digit nameplate in use, plus explicit claims of longer ones
    "allocmax": dict(apps=["a1"], sides=["s1", "s2"], names=["1", "10", "100"], client_mbox=["m1"],
                     # (the clock stands still: nothing expires; nobody releases what the set-up claimed)
                     steps=16, w_advance=0, w_stop=0, w_crash=0, w_drop=1, w_malformed=0,
                     type_weights=dict(allocate=10, release=0, close=0, add=0, open=0, list=1, claim=1),
                     final_quiesce=False, only_props=["C04.a", "C04.b", "C04.c"], plain_strings=True,
                     skip_prefill_lines=True,
                     prefill_spec=dict(class1=[9], class2=[90], class3=[900], always=["1000", "1001", "1002"])),
}

# ---------------------------------------------------------------------------
# per property: deciding clauses; TLC instances (quick depth, thorough depth);
# simulation sources; profiles (name, config variants)
def _p(clauses, mc, sim, profiles, pprops, pairs=(), pairclause=None):
    return dict(clauses=clauses, mc=mc, sim=sim, profiles=profiles, pprops=pprops, pairs=list(pairs),
                pairclause=pairclause)


# properties whose checks also judge the executions of the repository's own websocket tests
# (recorded from outside by harness/mbh/testrec.py)
TESTS_SOURCE = {"C01", "C02", "C03", "C04", "C05", "C07", "C08", "C09", "C15", "C17", "C18"}


PLAN = {
    "C01": _p(["C01.a", "C01.b"], [("core", 9, 12), ("apps", 8, 11), ("sendfail", 8, 10)], ["core", "time", "sendfail"],
              ["mailbox", "apps", "time", "script", "script2", "reuse", "idle"], ["P01"]),
    "C02": _p(["C02.a", "C02.b"], [("core", 9, 12), ("time", 8, 11), ("sendfail", 8, 10)], ["core", "time", "sendfail"],
              ["fanout", "mailbox", "time", "script", "script2", "reuse", "idle"], ["P02"]),
    # C07.a is C03's premise "for as long as the nameplate lives": an incarnation ends only by the
    # causes C07 lists, so a repeated claim must be told the same id until then
    # ... and C07.e is the other end of an incarnation: after the last acknowledged release the name is
    # free, so the next claim starts a new one (also when the release had to be re-sent after a kill)
    "C03": dict(_p(["C03.a", "C03.b", "C03.c", "C03.d", "C07.a", "C07.e"], [("core", 9, 12), ("apps", 8, 11)], ["core", "apps"],
                   ["nameplate", "apps", "crowd", "script", "script2", "reuse", "crash", "boundaries", "idle"], ["P03"]),
                variants={"crash": [dict(), dict(usage=True)]}),
    "C05": dict(_p(["C05.a", "C05.b", "C05.c", "C05.keep"], [("core", 9, 12)], ["core"],
                   ["crowd", "crowdrestart", "mailbox", "script", "script2", "reuse"], ["P05"]),
                # (the F6 witness needs 14 steps: it is replayed on the code and must conform to the
                #  specification, witnesses/F6.json, instead of being searched for by TLC)
                witness_mc=[]),
    "C06": _p(["C06.frame", "C06.bind"], [("apps", 8, 11)], ["apps"], ["apps"], ["P06"],
              pairs=[("iso", 144, 4000)], pairclause="C06.pair"),
    # (C18.a, the content of `list`, is C07's "listed while it lives, gone afterwards")
    "C07": _p(["C07.a", "C07.b", "C07.c", "C07.d", "C07.e", "C18.a"], [("core", 9, 12), ("apps", 8, 11)],
              ["core", "apps"], ["nameplate", "apps", "crowd", "script", "script2", "reuse", "crash", "boundaries", "idle"], ["P07"]),
    "C08": _p(["C08.a", "C08.b", "C08.c", "C08.d", "C08.e"], [("core", 9, 12)], ["core"],
              ["mailbox", "nameplate", "script", "script2", "reuse", "idle"], ["P08"]),
    "C04": dict(_p(["C04.a", "C04.b", "C04.c"], [("alloc", 8, 11), ("allocnl", 8, 11)], ["core"],
                   ["alloc", "nameplate"], ["P04"]),
                variants={"alloc": [dict(allow=True), dict(allow=False)]},
                thorough_profiles=["allocfull", "allocmax"], quick_extra=[("allocmax", 1)]),
    "C09": dict(_p(["C09.a", "C09.b"], [("crash", 8, 11), ("crashu", 7, 10)], ["crash", "crashu"],
                   ["crash", "usage", "mailbox", "script2", "crowd", "reuseu"], ["P09"]),
                # (mailbox, second variant: many adds with a value SQLite cannot bind, the clock moving in between)
                variants={"crash": [dict(), dict(usage=True)],
                          "mailbox": [dict(), dict(profile=dict(badmood=0.6, w_advance=5))]}),
    "C10": dict(_p(["C10.a", "C10.b", "C10.c", "C13.c"], [("crash", 8, 11), ("crashu", 7, 10)], ["crash", "crashu"],
                   ["crash", "boundaries"], ["P10", "P13"], pairs=[("resume", 144, 4000)], pairclause="C10.resume"),
                variants={"crash": [dict(), dict(usage=True)], "boundaries": [dict(), dict(usage=True)]}),
    "C11": _p([], [("time", 8, 11)], ["time"], [], ["P01", "P02"],
              pairs=[("restart", 144, 4000)], pairclause="C11.pair"),
    # (the second variants: a usage database with a blur interval longer than the expiration time --
    #  what is kept and what is swept must not depend on it)
    "C12": dict(_p(["C12.a", "C12.b", "C12.c"], [("time", 8, 11), ("time2", 7, 10)], ["time", "time2"],
                   ["time", "fanout", "script", "script2", "reuse", "idle"], ["P12"]),
                # (unit=20: the clock in 20-second ticks, so that commands fall inside a sweep period)
                variants={"time": [dict(), dict(usage=True, blur=20), dict(unit=20)],
                          "idle": [dict(), dict(usage=True, blur=20)]}),
    "C13": dict(_p(["C13.a", "C13.b", "C13.c"], [("time", 8, 11), ("time2", 7, 10)], ["time", "time2"],
                   ["time", "crowd", "mailbox", "script", "script2", "reuse", "idle"], ["P13"]),
                variants={"time": [dict(), dict(usage=True, blur=20)]}),
    "C14": _p([], [("core", 9, 12)], ["core"], [], ["P03", "P07", "P08"],
              pairs=[("resend", 120, 4000)], pairclause="C14.pair"),
    "C15": dict(_p(["C15.a", "C15.b", "C15.c"], [("usage", 7, 10), ("usage7", 7, 10)], ["usage", "usage7"],
                   ["usage", "crowd", "script2", "reuseu"], ["P15"]),
                variants={"usage": [dict(usage=True, blur=0), dict(usage=True, blur=3)],
                          "crowd": [dict(usage=True, blur=0)]}, classify=True),
    # blur intervals: minutes (tick = 60 s), seconds that do not divide a minute
    # (tick = 1 s), and real-valued arrival times (tick = 1/100 s)
    "C16": dict(_p(["C16.a", "C16.b", "C16.c"], [("usage", 7, 10), ("usage7", 7, 10)], ["usage", "usage7"],
                   ["usage", "boundaries", "crash"], ["P16"]),
                # (boundaries / crash: records written for what a killed process left behind, e.g. the
                #  side-less mailbox of a claim that died between its two commits)
                variants={"boundaries": [dict(usage=True, blur=3), dict(usage=True, blur=7, unit=1)],
                          "crash": [dict(usage=True, blur=3)],
                          "usage": [dict(usage=True, blur=3), dict(usage=True, blur=60 * 24), dict(usage=True, blur=7, unit=1),
                                    dict(usage=True, blur=45, unit=1), dict(usage=True, blur=61, unit=1),
                                    dict(usage=True, blur=3600, unit=1), dict(usage=True, blur=100, unit="1/100"),
                                    dict(usage=True, blur=700, unit="1/100")]}, classify=True),
    "C18": dict(_p(["C18.a"], [("nolist", 8, 11), ("alloc", 8, 11), ("allocnl", 8, 11)], ["nolist"],
                   ["nameplate"], ["P18"], pairs=[("config", 120, 4000)], pairclause="C18.pair"),
                variants={"nameplate": [dict(allow=True), dict(allow=False), dict(allow=False, usage=True, blur=3)]}),
    "C17": dict(_p(["C17.a", "C17.b", "C17.c", "C17.d", "C17.e", "C17.f", "C17.g"], [("proto", 7, 10), ("apps", 8, 11), ("sendfail", 8, 10)],
                   ["proto", "sendfail"], ["proto", "apps", "script", "script2", "reuse", "idle", "crowd"], ["P17"]),
                # the configured welcome notices: none, a message of the day, an error, a version, all three
                witness_mc=[("apps", 8, "W_F2")],
                variants={"proto": [dict(), dict(welcome={"motd": "hello \u2603"}),
                                    dict(welcome={"error": "go away", "current_cli_version": "0.12.0"}),
                                    dict(welcome={"motd": "m", "error": "e", "current_cli_version": "v"}, usage=True)]}),
}


# ---------------------------------------------------------------------------
# instances of spec/MBPair.tla (lock-step self-composition), per regime
PAIR_BASE = dict(
    AppB='"a1"', Spare='"cx"', Apps='{"a1"}', AppOrder='<- cAppOrder1', Sides='{"s1", "s2"}',
    Conns='{"c1", "c2"}', Class1='<- cClass1', Class2='<- cClass2', Class3='<- cClass3',
    LongNames='{"1000"}', OtherNames='{"x"}', ClientMbox='{"m1"}', GenMbox='<- cGen2', EXP='11', PERIOD='5',
    AllowList='TRUE', UsageOn='TRUE', Blur='0', Welcome='"w0"', MsgIds='{"~"}', AddMsgs='<- cAdd1',
    MoodSet='{"~"}', ClaimNames='{"1"}', PickSet='{"1", "2"}', AdvanceSteps='{5, 6}', MaxTime='17',
    MaxMsgs='1', MaxDepth='8', Stringified='{}', BadMoods='{}')
PAIR_INST = {
    "iso": dict(Apps='{"a1", "a2"}', AppOrder='<- cAppOrder2'),
    "restart": dict(),
    "resend": dict(Sides='{"s1", "s2", "s3"}', Conns='{"c1", "c2", "cx"}'),
}


def pair_cfg_text(regime, depth):
    c = dict(PAIR_BASE)
    c.update(PAIR_INST[regime])
    c["MaxDepth"] = str(depth)
    lines = ["SPECIFICATION PSpec", "CONSTANTS", '  Regime = "%s"' % regime]
    for k, v in c.items():
        lines.append("  %s %s" % (k, v) if v.startswith("<-") else "  %s = %s" % (k, v))
    lines += ["CONSTRAINT PConstr", "VIEW PView", "INVARIANT PairInv", "CHECK_DEADLOCK FALSE"]
    return "\n".join(lines) + "\n"


# instances of spec/MBPairCfg.tla: the options of the second copy (first copy: listing allowed, no usage db)
CFG_ALTS = [("FALSE", "TRUE", "3"), ("TRUE", "TRUE", "7"), ("FALSE", "FALSE", "0")]


def paircfg_cfg_text(alt, depth):
    c = dict(PAIR_BASE)
    for k in ("AppB", "Spare", "AllowList", "UsageOn", "Blur", "MsgIds", "MaxDepth", "Stringified"):
        c.pop(k, None)
    c.update(AL1="TRUE", US1="FALSE", BL1="0", AL2=alt[0], US2=alt[1], BL2=alt[2], ClaimNames='{"1", "x"}', BadMoods="{}",
             AdvanceSteps="{5, 12}", MaxDepth=str(depth))
    lines = ["SPECIFICATION CSpec", "CONSTANTS"]
    for k, v in c.items():
        lines.append("  %s %s" % (k, v) if v.startswith("<-") else "  %s = %s" % (k, v))
    lines += ["CONSTRAINT CConstr", "VIEW CView", "INVARIANT CfgInv", "CHECK_DEADLOCK FALSE"]
    return "\n".join(lines) + "\n"
for _k in TESTS_SOURCE:
    PLAN[_k]["tests"] = True
