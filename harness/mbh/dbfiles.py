"""C19 / C20: out-of-process crash injection into the database.py entry points.

For each scenario (schema kind, initial file content, entry point) the entry
point is run in a child process that dies (os._exit) at the k-th intercepted
step -- sqlite statement, commit, close, mkstemp, rename, copy -- for every
k; after each death the directory is abstracted and the server is "started
again" (a normal run), twice.  The recorded runs go to TLC
(spec/FilesTrace.tla): conformance with spec/DbFiles.tla and the C19/C20
clauses.
"""
import hashlib, json, os, random, shutil, sqlite3, subprocess, sys, tempfile, time, re

HERE = os.path.dirname(os.path.abspath(__file__))
REPO_SRC = os.environ.get("MBH_REPO_SRC", "/repo/src")
SCHEMAS = os.path.join(REPO_SRC, "wormhole_mailbox_server", "db-schemas")
PY = sys.executable

# the objects a complete database of each kind/version must at least have (pinned here, not derived
# from the code under test).  What a complete database of the tree under test has EXACTLY is what its
# own schema script creates (full_names / fresh_schema_sql): a tree may add an index to its scripts
# without ceasing to create complete databases, but it may not lose one of these.
OBJECTS = {
    ("channel", 1): {"version", "nameplates", "nameplates_idx", "nameplates_mailbox_idx",
                     "nameplates_request_idx", "nameplate_sides", "mailboxes", "mailboxes_idx",
                     "mailbox_sides", "messages", "messages_idx"},
    ("usage", 1): {"version", "current", "nameplates", "nameplates_idx", "mailboxes", "mailboxes_idx",
                   "mailboxes_result_idx"},
    ("usage", 2): {"version", "current", "nameplates", "nameplates_idx", "mailboxes", "mailboxes_idx",
                   "mailboxes_result_idx", "client_versions", "client_versions_time_idx",
                   "client_versions_appid_time_idx"},
}
TARGET = {"channel": 1, "usage": 2}
MAIN = "db.sqlite"


def norm_sql(s):
    return re.sub(r"\s+", " ", re.sub(r"--[^\n]*", "", s or "")).strip()


def fresh_schema_sql(kind, v):
    """sqlite_master of a database made by running the repo's schema script
    with plain sqlite3 (not through database.py)."""
    c = sqlite3.connect(":memory:")
    c.executescript(open(os.path.join(SCHEMAS, "%s-v%d.sql" % (kind, v))).read())
    r = {(t, n, norm_sql(s)) for (t, n, s) in c.execute("SELECT type, name, sql FROM sqlite_master")
         if not n.startswith("sqlite_")}
    c.close()
    return r


_full_cache = {}


def full_names(kind, v):
    """names of the objects the tree's schema script for (kind, v) creates; the pinned core if the
    script lacks some of it (then nothing the code creates counts as complete)"""
    if (kind, v) not in _full_cache:
        try:
            names = {n for (_, n, _) in fresh_schema_sql(kind, v)}
        except Exception:
            names = set()
        core = OBJECTS[(kind, v)]
        _full_cache[(kind, v)] = names if core <= names else set(core)
    return _full_cache[(kind, v)]


def abstract_file(path, kind, s0):
    if not os.path.exists(path):
        return {"t": "absent"}
    raw = open(path, "rb").read()
    sha = "s0" if (s0 is not None and raw == s0) else "new"
    if len(raw) == 0:
        return {"t": "junk", "sha": "empty"}
    try:
        c = sqlite3.connect(path)
        master = [r for r in c.execute("SELECT type, name, sql FROM sqlite_master").fetchall()
                  if not r[1].startswith("sqlite_")]
        names = {n for (_, n, _) in master}
        sqls = {(t, n, norm_sql(s)) for (t, n, s) in master}
        ver = None
        if "version" in names:
            ver = [int(v) if v is not None else -1 for (v,) in c.execute("SELECT version FROM version ORDER BY rowid")]
        rows = []
        for (t, n, _) in sorted(master):
            if t == "table" and n not in ("version", "sqlite_sequence"):
                for r in c.execute("SELECT * FROM `%s`" % n):
                    rows.append((n, repr(r)))
        c.execute("PRAGMA integrity_check").fetchall()
        c.close()
    except sqlite3.DatabaseError:
        return {"t": "junk", "sha": sha}
    schema = "other"
    full = full_names(kind, TARGET[kind])
    if ver in (None, []) and names < full:
        # a database under construction: the first len(names) CREATE statements
        if ver is None:
            ver = []
        return {"t": "db", "schema": "part:%d" % len(names), "ver": [], "data": "nodata", "sha": sha}
    for (k, v) in OBJECTS:
        if k == kind and names == full_names(k, v) and OBJECTS[(k, v)] <= names:
            schema = "full:%d" % v if sqls == fresh_schema_sql(k, v) else "other"
    if schema == "other" and kind == "usage" and full_names("usage", 1) <= names < full_names("usage", 2):
        extra = len(names - full_names("usage", 1))
        schema = "upg:%d" % extra
    if ver is None:
        schema = schema if schema.startswith("part:") else "noversion"
        ver = []
    data = "nodata" if not rows else "d:" + hashlib.sha1(repr(sorted(rows)).encode()).hexdigest()[:10]
    return {"t": "db", "schema": schema, "ver": ver, "data": data, "sha": sha}


def abstract_dir(d, kind, s0, scratch):
    """Abstract a directory as left by a (possibly killed) process.  Works on
    a copy, so that SQLite's recovery of a hot journal does not touch `d`."""
    shutil.rmtree(scratch, ignore_errors=True)
    shutil.copytree(d, scratch)
    main = abstract_file(os.path.join(scratch, MAIN), kind, s0)
    temps, backup = [], {"t": "absent"}
    for f in sorted(os.listdir(d)):
        if f == MAIN or f.endswith("-journal"):
            continue
        a = abstract_file(os.path.join(scratch, f), kind, s0)
        if f.startswith(MAIN + "-backup-v"):
            backup = a
        elif f.startswith(MAIN + "."):
            if a not in temps:
                temps.append(a)
        else:
            temps.append({"t": "junk", "sha": "stray:" + f})
    shutil.rmtree(scratch, ignore_errors=True)
    return {"main": main, "temps": temps, "backup": backup}


def run_child(entry, path, crash_at):
    pr = subprocess.run([PY, os.path.join(HERE, "dbchild.py"), REPO_SRC, entry, path, str(crash_at)],
                        stdout=subprocess.PIPE, stderr=subprocess.PIPE, text=True)
    if pr.returncode == 9:
        return {"result": "crashed", "steps": None}
    try:
        return json.loads(pr.stdout.strip().splitlines()[-1])
    except Exception:
        return {"result": "child-failed:" + pr.stderr[-300:], "steps": None}


def model_result(r):
    return r if r in ("ok", "crashed", "DBAlreadyExists", "DBDoesntExist") else ("error" if not r.startswith("child-failed") else r)


# ---------------------------------------------------------------------------
# initial contents

def rand_text(rng):
    return rng.choice(["", "x", "lonely", "é" * rng.randint(1, 5), "a" * rng.randint(50, 400), "0", "NULL"])


def make_db(path, kind, version, rng, rows=True, schema_version=None):
    c = sqlite3.connect(path)
    sv = schema_version or min(version, TARGET[kind])
    c.executescript(open(os.path.join(SCHEMAS, "%s-v%d.sql" % (kind, sv))).read())
    c.execute("INSERT INTO version (version) VALUES (?)", (version,))
    if rows:
        big = lambda: rng.choice([0, 1, 2 ** 40, 2 ** 63 - 1, -5, None, rng.randint(0, 10 ** 9)])
        if kind == "usage":
            for _ in range(rng.randint(1, 6)):
                c.execute("INSERT INTO nameplates VALUES (?,?,?,?,?)", (rand_text(rng), big(), big(), big(), rand_text(rng)))
            for _ in range(rng.randint(0, 6)):
                c.execute("INSERT INTO mailboxes VALUES (?,?,?,?,?,?)", (rand_text(rng), rng.choice([0, 1, None]), big(), big(), big(), rand_text(rng)))
            for _ in range(rng.randint(0, 2)):
                c.execute("INSERT INTO current VALUES (?,?,?,?)", (big(), big(), big(), big()))
            if sv >= 2:
                for _ in range(rng.randint(0, 3)):
                    c.execute("INSERT INTO client_versions VALUES (?,?,?,?,?)", (rand_text(rng), rand_text(rng), big(), rand_text(rng), rand_text(rng)))
        else:
            c.execute("INSERT INTO mailboxes VALUES (?,?,?,?)", ("app", "mb1", 5, 1))
            c.execute("INSERT INTO nameplates (app_id, name, mailbox_id) VALUES (?,?,?)", ("app", rand_text(rng), "mb1"))
            c.execute("INSERT INTO nameplate_sides VALUES (1,1,?,?)", (rand_text(rng), big()))
            c.execute("INSERT INTO mailbox_sides VALUES ('mb1',1,?,?,NULL)", (rand_text(rng), big()))
            for _ in range(rng.randint(0, 4)):
                c.execute("INSERT INTO messages VALUES (?,?,?,?,?,?,?)", ("app", "mb1", rand_text(rng), rand_text(rng), rand_text(rng), big(), None))
    c.commit()
    c.close()


def contents(kind, rng, tier):
    """(name, maker(path)) pairs"""
    def absent(p):
        pass

    def empty(p):
        open(p, "wb").close()

    def junk(p):
        with open(p, "wb") as f:
            f.write(bytes(rng.getrandbits(8) for _ in range(rng.choice([1, 16, 100, 5000]))))

    def truncated(p):
        make_db(p, kind, TARGET[kind], rng)
        raw = open(p, "rb").read()
        with open(p, "wb") as f:
            f.write(raw[:rng.choice([10, 99, 100, 512, 1024, 4095, len(raw) // 2])])

    def current(p):
        make_db(p, kind, TARGET[kind], rng)

    def current_norows(p):
        make_db(p, kind, TARGET[kind], rng, rows=False)

    def newer(p):
        make_db(p, kind, rng.choice([TARGET[kind] + 1, 9, 1000]), rng)

    def noversionrow(p):
        make_db(p, kind, TARGET[kind], rng)
        c = sqlite3.connect(p); c.execute("DELETE FROM version"); c.commit(); c.close()

    def older(p):
        make_db(p, "usage", 1, rng, schema_version=1)

    def older_norows(p):
        make_db(p, "usage", 1, rng, rows=False, schema_version=1)

    def older_stalebackup(p):
        # a backup file left over from an earlier database at the same path
        make_db(p + "-backup-v1", "usage", 1, rng, schema_version=1)
        make_db(p, "usage", 1, rng, schema_version=1)
    lst = [("absent", absent), ("empty", empty), ("junk", junk), ("truncated", truncated),
           ("current", current), ("current-norows", current_norows), ("newer", newer),
           ("noversionrow", noversionrow)]
    if kind == "usage":
        lst += [("older", older), ("older-norows", older_norows), ("older-stalebackup", older_stalebackup)]
        if tier != "quick":
            lst += [("older", older)] * 6
    if tier != "quick":
        lst += [("truncated", truncated)] * 6 + [("junk", junk)] * 3 + [("current", current)] * 3
    return lst


def scenario(kind, cname, maker, entry, rng, workdir, sid0, crash=True):
    """All crash positions of `entry` on the content, each followed by two
    normal starts.  Returns trace lines."""
    lines = []
    base = tempfile.mkdtemp(prefix="dbf-", dir=workdir)
    proto = os.path.join(base, "proto")
    os.makedirs(proto)
    maker(os.path.join(proto, MAIN))
    s0 = open(os.path.join(proto, MAIN), "rb").read() if os.path.exists(os.path.join(proto, MAIN)) else None
    scratch = os.path.join(base, "scratch")
    first = abstract_dir(proto, kind, s0, scratch)["main"]
    full = {"get": "get-" + kind, "create": "create-" + kind, "open": "open"}

    def one_history(crash_at, sid):
        d = os.path.join(base, "run")
        shutil.rmtree(d, ignore_errors=True)
        shutil.copytree(proto, d)
        seq = [(entry, crash_at), ("get", -1), ("get", -1)] if crash_at >= 0 else [(entry, -1), (entry, -1)]
        i = 0
        steps = None
        for (en, k) in seq:
            pre = abstract_dir(d, kind, s0, scratch)
            r = run_child(full[en], os.path.join(d, MAIN), k)
            post = abstract_dir(d, kind, s0, scratch)
            i += 1
            lines.append(dict(sid=sid, i=i, kind=kind, content=cname, entry=en, crash_at=k,
                              pre=pre, post=post, result=model_result(r["result"]), raw=r["result"], first=first))
            if steps is None:
                steps = r.get("steps")
            if r["result"] != "crashed" and k >= 0:
                # the kill point was beyond the end of the run: nothing more to learn
                return steps, False
        return steps, True
    steps, _ = one_history(-1, sid0)
    n = 1
    if crash and steps:
        for k in range(1, steps + 1):
            _, went = one_history(k, sid0 + n)
            n += 1
            if not went:
                break
    shutil.rmtree(base, ignore_errors=True)
    return lines, n


def generate(kind, tier, seed, workdir):
    rng = random.Random("dbfiles/%s/%d" % (kind, seed))
    lines, sid = [], 0
    for (cname, maker) in contents(kind, rng, tier):
        for entry in ("get", "create", "open"):
            crash = entry in ("get", "create") and cname in ("absent", "older", "older-norows", "older-stalebackup", "current", "newer") \
                and not (entry == "create" and cname != "absent")
            ls, n = scenario(kind, cname, maker, entry, rng, workdir, sid, crash=crash)
            lines += ls
            sid += n
    return lines


# ---------------------------------------------------------------------------
# TLC

def to_tla_content(c):
    if c["t"] == "absent":
        return c
    if c["t"] == "junk":
        return c
    return c


def check_lines(lines, kind, workdir, tag, atomic_upgrade=True):
    from .tracecheck import JAVA, SPEC_DIR
    os.makedirs(workdir, exist_ok=True)
    tf = os.path.join(workdir, tag + ".ndjson")
    of = os.path.join(workdir, tag + ".out.json")
    with open(tf, "w") as f:
        for ln in lines:
            f.write(json.dumps({k: ln[k] for k in ("sid", "i", "entry", "pre", "post", "result", "first")},
                               separators=(",", ":")) + "\n")
    n_create = len(full_names(kind, TARGET[kind]))
    with open(os.path.join(workdir, "FT_%s.tla" % tag), "w") as f:
        f.write("---- MODULE FT_%s ----\nEXTENDS FilesTrace\n====\n" % tag)
    with open(os.path.join(workdir, "FT_%s.cfg" % tag), "w") as f:
        f.write("SPECIFICATION FTSpec\nCONSTANTS\n  Kind = \"%s\"\n  Target = %d\n  NCreate = %d\n"
                "  HasUpgrader = %s\n  AtomicUpgrade = %s\n  InitialContents = {}\n  Entries = {}\n  MaxRuns = 0\n"
                "CHECK_DEADLOCK FALSE\n" % (kind, TARGET[kind], n_create, "{1}" if kind == "usage" else "{}",
                                           "TRUE" if atomic_upgrade else "FALSE"))
    env = dict(os.environ, MBH_TRACE=tf, MBH_OUT=of)
    cmd = JAVA[:1] + ["-XX:+UseSerialGC", "-Xmx2g"] + JAVA[1:] + [
        "tlc2.TLC", "-workers", "1", "-metadir", os.path.join(workdir, "meta_" + tag), "-noGenerateSpecTE",
        "-config", "FT_%s.cfg" % tag, "FT_%s.tla" % tag]
    pr = subprocess.run(cmd, cwd=workdir, env=env, stdout=subprocess.PIPE, stderr=subprocess.STDOUT, text=True)
    shutil.rmtree(os.path.join(workdir, "meta_" + tag), ignore_errors=True)
    if not os.path.exists(of):
        return None, pr.stdout[-5000:]
    return json.load(open(of))["res"], pr.stdout[-2000:]
