"""Relational properties (C06 isolation, C10 resume, C11 restart, C14 re-send,
C18 configuration independence): run the same generated history twice on the
real code under two regimes, align the two executions by shared input index
and let TLC (spec/TracePair.tla) compare the observations the property says
must be equal."""
import json, os, random, re, copy
from .driver import Driver, Config, Tokens, ABSENT, ev0, msg0
from .gen import make_tokens, run_random, backfill

GEN_RE = re.compile(r"^g\d+$")
UNIT = 60


def _mk(cfgd, conns, table):
    cfg = Config(allow_list=cfgd["allow"], usage=cfgd["usage"], blur=cfgd["blur"], unit=UNIT,
                 snapshots=cfgd.get("snapshots", False), welcome=cfgd.get("welcome"))
    return Driver(cfg, tokens=Tokens(table), conns=tuple(conns))


class Runner(object):
    """Executes events one at a time on a fresh driver; an event that cannot
    be executed in this run (connection not there, ...) yields None."""

    def __init__(self, cfgd, conns, table, seed=0):
        self.drv = _mk(cfgd, conns, table)
        random.seed(seed)

    def close(self):
        self.drv.close()

    def step(self, e):
        drv = self.drv
        e = copy.deepcopy(e)
        k = e["k"]
        if k == "DropAll":
            for c in list(drv.protos):
                drv.step(ev0("Drop", c=c))
            return e, snapshot(drv)
        if k == "ManualSweep":
            return e, manual_sweep(drv)
        ok = True
        if not drv.up and k not in ("Start", "Advance"):
            ok = False
        elif k in ("Cmd", "CrashInCmd", "Drop") and e["c"] not in drv.protos:
            ok = False
        elif k == "Connect" and (e["c"] in drv.protos):
            ok = False
        elif k == "Start" and drv.up:
            ok = False
        elif k in ("Sweep", "CrashInSweep") and drv.now_ticks() != drv.next_sweep:
            ok = False
        if not ok:
            return e, None
        g0 = drv.tokens.gen
        o = drv.step(e)
        backfill(e, o, g0, drv)
        return e, o


def execute(events, cfgd, conns, table, seed=0):
    """Run events; returns list of (event, obs|None)."""
    r = Runner(cfgd, conns, table, seed)
    try:
        return [r.step(e) for e in events]
    finally:
        r.close()


def snapshot(drv):
    d = drv.read_disk()
    return dict(e=ev0("DropAll"), out=[], err=ABSENT, tr=[], cands=[], db=d["db"], udb=d["udb"], now=drv.now_ticks(),
                hid=dict(conn=drv.conn_flags(), nextSweep=drv.next_sweep, up=drv.up, rebooted=drv.rebooted,
                         gen=drv.tokens.gen))


def manual_sweep(drv):
    """the reference run's sweep at an instant chosen by the harness: the same
    calls expire() makes, without the service timer"""
    tap = drv.m["tap"]
    now = drv.clock.time()
    err = ABSENT
    try:
        drv.server.prune_all_apps(now, now - tap.CHANNEL_EXPIRATION_TIME)
    except Exception as ex:
        err = type(ex).__name__
    drv.server.dump_stats(now, rebooted=drv.rebooted * float(drv.cfg.unit))
    o = snapshot(drv)
    o["e"] = ev0("ManualSweep")
    o["err"] = err
    return o


# ---------------------------------------------------------------------------
# canonical names for server-generated ids, in order of first appearance in
# the compared part of an execution

class Canon(object):
    def __init__(self):
        self.m = {}

    def __call__(self, tok):
        if isinstance(tok, str) and GEN_RE.match(tok):
            if tok not in self.m:
                self.m[tok] = "h%d" % (len(self.m) + 1)
            return self.m[tok]
        return tok


def canon_frames(frames, cn, keep=None, strip_names=False):
    out = []
    for f in frames:
        if keep is not None and f["to"] not in keep:
            continue
        g = dict(f)
        g["mailbox"] = cn(g["mailbox"])
        g.pop("ci", None)
        g.pop("synced", None)
        if strip_names and g["type"] == "nameplates":
            g["names"] = []
        out.append(g)
    return out


def canon_db(db, cn, app=None, with_updated=True):
    ids = {r["id"] for r in db["mb"] if app is None or r["app"] == app}
    f = lambda r: app is None or r["app"] == app
    mb = []
    for r in db["mb"]:
        if f(r):
            x = dict(r, id=cn(r["id"]))
            if not with_updated:
                x["updated"] = 0
            mb.append(x)
    return dict(
        np=[dict(r, mbox=cn(r["mbox"])) for r in db["np"] if f(r)],
        nps=[dict(r) for r in db["nps"] if f(r)],
        mb=mb,
        mbs=[dict(r, mbox=cn(r["mbox"])) for r in db["mbs"] if r["mbox"] in ids],
        msgs=[dict(r, mbox=cn(r["mbox"])) for r in db["msgs"] if f(r)],
        anom=list(db["anom"]))


def canon_udb(udb, app=None, with_cur=False, with_cv=True):
    f = lambda r: app is None or r["app"] == app
    return dict(unp=sorted([r for r in udb["unp"] if f(r)], key=json.dumps),
                umb=sorted([r for r in udb["umb"] if f(r)], key=json.dumps),
                ucv=sorted([r for r in udb["ucv"] if f(r)], key=json.dumps) if with_cv else [],
                cur=list(udb["cur"]) if with_cur else [])


# ---------------------------------------------------------------------------
# regimes.  Each returns a list of pair lines
#   {pid, x, regime, what, L: {...}, R: {...}, li: index of the step in the L run}

def lifetimes(run):
    """tag every (event index) of Connect/Cmd/Drop with the app its connection
    lifetime binds to (None if it never binds)"""
    cur, tags, life = {}, {}, {}
    for i, (e, o) in enumerate(run):
        k = e["k"]
        if k == "Connect":
            cur[e["c"]] = [i]
            life[i] = cur[e["c"]]
        elif k in ("Cmd", "CrashInCmd", "Drop") and e["c"] in cur:
            cur[e["c"]].append(i)
            life[i] = cur[e["c"]]
            if k != "Drop" and e["m"]["type"] == "bind" and o is not None and len(cur[e["c"]]) and \
                    not any(f["type"] == "error" for f in o["out"]) and "app" not in tags.get(id(cur[e["c"]]), {}):
                tags[id(cur[e["c"]])] = {"app": e["m"]["appid"]}
            if k == "Drop":
                del cur[e["c"]]
        elif k in ("Stop", "Crash", "CrashInCmd", "CrashInSweep"):
            cur = {}
    return {i: tags.get(id(l), {}).get("app") for i, l in life.items()}


def force_picks(events, run):
    """make the second run take the same random allocate choices"""
    return events


def pair_iso(L, cfgd, conns, table, B, pid):
    tag = lifetimes(L)
    keep_idx = [i for i, (e, o) in enumerate(L)
                if not (e["k"] in ("Connect", "Cmd", "CrashInCmd", "Drop") and tag.get(i) not in (B, None))]
    cL, cR = Canon(), Canon()
    lines = []
    run = Runner(cfgd, conns, table)
    try:
        for x, i in enumerate(keep_idx):
            e1, o1 = L[i]
            # B's clients name a server-generated mailbox by what it is called
            # in their own world: translate through the canonical names
            e2 = copy.deepcopy(e1)
            mb = e2["m"]["mailbox"]
            if GEN_RE.match(mb or ""):
                inv = {h: t for t, h in cR.m.items()}
                if mb not in cL.m or cL.m[mb] not in inv:
                    return lines, L  # an id B's clients cannot know in the smaller world: stop comparing here
                e2["m"]["mailbox"] = inv[cL.m[mb]]
            e2["gid"] = ABSENT
            e2, o2 = run.step(e2)
            if o1 is None or o2 is None:
                if (o1 is None) != (o2 is None):
                    lines.append(dict(pid=pid, x=x + 1, li=i + 1, regime="iso", what="executable",
                                      L=dict(v=o1 is not None), R=dict(v=o2 is not None)))
                continue
            lines.append(dict(pid=pid, x=x + 1, li=i + 1, regime="iso", what="obs",
                              L=dict(out=canon_frames(o1["out"], cL, keep=_scope_conns(L, i, tag, B)), err=o1["err"],
                                     cands=o1.get("cands", []),
                                     db=canon_db(o1["db"], cL, app=B), udb=canon_udb(o1["udb"], app=B)),
                              R=dict(out=canon_frames(o2["out"], cR), err=o2["err"], cands=o2.get("cands", []),
                                     db=canon_db(o2["db"], cR, app=B), udb=canon_udb(o2["udb"], app=B))))
    finally:
        run.close()
    return lines, L


def _scope_conns(L, i, tag, B):
    """connection slots that, at step i of L, belong to app B or to no app"""
    cur = {}
    for j in range(i + 1):
        e = L[j][0]
        if e["k"] == "Connect":
            cur[e["c"]] = tag.get(j)
        elif e["k"] in ("Stop", "Crash", "CrashInCmd", "CrashInSweep") and j < i:
            cur = {}
    return {c for c, a in cur.items() if a in (B, None)}


def pair_config(L, cfgd, cfgd2, conns, table, pid):
    evs = [e for (e, o) in L]
    R = execute(evs, cfgd2, conns, table)
    cL, cR = Canon(), Canon()
    lines = []
    for x, ((e1, o1), (e2, o2)) in enumerate(zip(L, R)):
        if o1 is None or o2 is None:
            if (o1 is None) != (o2 is None):
                lines.append(dict(pid=pid, x=x + 1, li=x + 1, regime="config", what="executable",
                                  L=dict(v=o1 is not None), R=dict(v=o2 is not None)))
            continue
        lines.append(dict(pid=pid, x=x + 1, li=x + 1, regime="config", what="obs",
                          L=dict(out=canon_frames(o1["out"], cL, strip_names=True), err=o1["err"], cands=o1.get("cands", []),
                                 db=canon_db(o1["db"], cL), udb=canon_udb({"unp": [], "umb": [], "ucv": [], "cur": []})),
                          R=dict(out=canon_frames(o2["out"], cR, strip_names=True), err=o2["err"], cands=o2.get("cands", []),
                                 db=canon_db(o2["db"], cR), udb=canon_udb({"unp": [], "umb": [], "ucv": [], "cur": []}))))
    return lines, L


def pair_restart(L, cfgd, conns, table, pid):
    """L contains  ... Stop, Start, K ...;  R keeps the server object: DropAll,
    a sweep at the same instant, and K with the sweeps made at L's instants."""
    idx = [i for i, (e, o) in enumerate(L) if e["k"] == "Stop" and i + 1 < len(L) and L[i + 1][0]["k"] == "Start"
           and L[i + 1][1] is not None]
    if not idx:
        return [], L
    j = idx[0]
    end = len(L)
    for i in range(j + 2, len(L)):
        if L[i][0]["k"] in ("Stop", "Crash", "CrashInCmd", "CrashInSweep", "Start"):
            end = i
            break
    evs = [e for (e, o) in L[:j]] + [ev0("DropAll"), ev0("ManualSweep")]
    for (e, o) in L[j + 2:end]:
        evs.append(ev0("ManualSweep") if e["k"] == "Sweep" and not e["fault"] else e)
    R = execute(evs, cfgd, conns, table)
    cL, cR = Canon(), Canon()
    lines = []
    # alignment: L[j] (Stop) ~ R[j] (DropAll); L[j+1] (Start) ~ R[j+1] (ManualSweep); then one to one
    for x in range(len(R)):
        (e1, o1), (e2, o2) = L[x], R[x]
        if o1 is None or o2 is None:
            if (o1 is None) != (o2 is None) and x > j + 1:
                lines.append(dict(pid=pid, x=x + 1, li=x + 1, regime="restart", what="executable",
                                  L=dict(v=o1 is not None), R=dict(v=o2 is not None)))
            continue
        if e1["k"] == "Sweep" and e1["fault"]:
            continue
        fr1 = canon_frames(o1["out"], cL)
        fr2 = canon_frames(o2["out"], cR)
        d1, d2 = canon_db(o1["db"], cL), canon_db(o2["db"], cR)
        if x <= j + 1:
            continue    # before the continuation only the canonical naming is built up
        lines.append(dict(pid=pid, x=x + 1, li=x + 1, regime="restart", what="obs",
                          L=dict(out=fr1, err=o1["err"], db=d1, udb=canon_udb(o1["udb"])),
                          R=dict(out=fr2, err=o2["err"], db=d2, udb=canon_udb(o2["udb"]))))
    return lines, L


RESEND = ("claim", "release", "open", "close")


def answer_of(o, c):
    """the answer to a command: its frames to the sender, acks apart"""
    return [f for f in o["out"] if f["to"] == c and f["type"] != "ack"]


def pair_resend(R, cfgd, conns, table, pid, rng, spare="cx"):
    """R is the original history; L duplicates one successfully answered
    claim/release/open/close on a fresh connection of the same side."""
    bound = {}
    cands = []
    for i, (e, o) in enumerate(R):
        if o is None:
            continue
        k = e["k"]
        if k == "Connect":
            bound.pop(e["c"], None)
        elif k == "Cmd":
            m = e["m"]
            errf = any(f["type"] == "error" for f in o["out"])
            if m["type"] == "bind" and not errf and o["err"] == ABSENT and e["c"] not in bound:
                bound[e["c"]] = (m["appid"], m["side"])
            elif m["type"] in RESEND and not errf and o["err"] == ABSENT and e["c"] in bound:
                cands.append((i, bound[e["c"]]))
        elif k == "Drop":
            bound.pop(e["c"], None)
        elif k in ("Stop", "Crash", "CrashInCmd", "CrashInSweep"):
            bound = {}
    if not cands:
        return [], R
    pool = list(cands)
    # ... and commands on an object whose name is the empty string come first, most of the time
    def awkward(x):
        e1, o1 = R[x[0]]
        fl1 = o1["hid"]["conn"][e1["c"]]
        n = e1["m"]["nameplate"] if e1["m"]["nameplate"] != ABSENT else fl1["npId"]
        i = e1["m"]["mailbox"] if e1["m"]["mailbox"] != ABSENT else fl1["mboxId"]
        return (e1["m"]["type"] in ("claim", "release") and table.get("name", {}).get(n) == "") or \
               (e1["m"]["type"] in ("open", "close") and table.get("mbox", {}).get(i) == "")
    odd = [x for x in cands if awkward(x)]
    if odd and rng.random() < 0.5:
        pool = odd
    j, (app, side) = rng.choice(pool)
    e0 = R[j][0]
    m = dict(e0["m"])
    fl = R[j][1]["hid"]["conn"][e0["c"]]
    # what the client would re-send: the same command, naming the object explicitly
    if m["type"] == "release" and m["nameplate"] == ABSENT:
        m["nameplate"] = fl["npId"]
    if m["type"] == "close" and m["mailbox"] == ABSENT:
        m["mailbox"] = fl["mboxId"]
    dup = [ev0("Connect", c=spare), ev0("Cmd", c=spare, m=msg0(type="bind", appid=app, side=side)),
           ev0("Cmd", c=spare, m=m), ev0("Drop", c=spare)]
    evs = [e for (e, o) in R[:j + 1]] + dup + [e for (e, o) in R[j + 1:]]
    L = execute(evs, cfgd, tuple(conns) + (spare,), table)
    cL, cR = Canon(), Canon()
    lines = []
    orig_conns = set(conns)
    for x in range(len(R)):
        li = x if x <= j else x + len(dup)
        (e1, o1), (e2, o2) = L[li], R[x]
        if o1 is None or o2 is None:
            if (o1 is None) != (o2 is None):
                lines.append(dict(pid=pid, x=x + 1, li=li + 1, regime="resend", what="executable",
                                  L=dict(v=o1 is not None), R=dict(v=o2 is not None)))
            continue
        lines.append(dict(pid=pid, x=x + 1, li=li + 1, regime="resend", what="obs",
                          L=dict(out=canon_frames(o1["out"], cL, keep=orig_conns), err=o1["err"],
                                 db=canon_db(o1["db"], cL), udb=canon_udb({"unp": [], "umb": [], "ucv": [], "cur": []})),
                          R=dict(out=canon_frames(o2["out"], cR, keep=orig_conns), err=o2["err"],
                                 db=canon_db(o2["db"], cR), udb=canon_udb({"unp": [], "umb": [], "ucv": [], "cur": []}))))
        if x == j:
            od = L[j + 3][1]
            if od is not None and L[j + 1][1] is not None and L[j + 2][1] is not None:
                a1 = canon_frames(answer_of(od, spare), cL)
                a0 = canon_frames(answer_of(o1, e0["c"]), cL)
                for f in a1 + a0:
                    f["to"] = "-"
                lines.append(dict(pid=pid, x=x + 1, li=j + 4, regime="resend", what="answer",
                                  L=dict(out=a1, err=od["err"], db=canon_db(od["db"], cL), udb=canon_udb({"unp": [], "umb": [], "ucv": [], "cur": []})),
                                  R=dict(out=a0, err=o1["err"], db=canon_db(o1["db"], cL), udb=canon_udb({"unp": [], "umb": [], "ucv": [], "cur": []}))))
    return lines, L


def pair_resume(H, cfgd, conns, table, pid, rng, spare="cx"):
    """H is a recorded history.  Pick a carried-out claim/release/open/close at
    index j.  L: the process dies inside it (after `at` durable changes), the
    server restarts, the client reconnects and re-sends it.  R: the command
    completes, everybody disconnects, a sweep runs at the same instant."""
    bound, cands = {}, []
    for i, (e, o) in enumerate(H):
        if o is None:
            continue
        k = e["k"]
        if k == "Cmd":
            m = e["m"]
            errf = any(f["type"] == "error" for f in o["out"])
            if m["type"] == "bind" and not errf and o["err"] == ABSENT and e["c"] not in bound:
                bound[e["c"]] = (m["appid"], m["side"])
            elif m["type"] in RESEND and not errf and o["err"] == ABSENT and e["c"] in bound and len(o["tr"]) >= 1:
                cands.append((i, bound[e["c"]], len(o["tr"])))
        elif k in ("Connect", "Drop"):
            bound.pop(e["c"], None)
        elif k in ("Stop", "Crash", "CrashInCmd", "CrashInSweep"):
            bound = {}
    if not cands:
        return [], H
    j, (app, side), ntr = rng.choice(cands)
    e0 = H[j][0]
    m = dict(e0["m"])
    pre = H[j - 1][1]["hid"]["conn"][e0["c"]] if j > 0 and H[j - 1][1] else None
    fl = H[j][1]["hid"]["conn"][e0["c"]]
    if m["type"] == "release" and m["nameplate"] == ABSENT:
        m["nameplate"] = fl["npId"]
    if m["type"] == "close" and m["mailbox"] == ABSENT:
        m["mailbox"] = fl["mboxId"] if fl["mboxId"] != ABSENT else (pre or fl)["mboxId"]
    if (m["type"] == "release" and m["nameplate"] == ABSENT) or (m["type"] == "close" and m["mailbox"] == ABSENT):
        return [], H
    at = rng.randrange(0, ntr)
    prefix = [e for (e, o) in H[:j]]
    crash = copy.deepcopy(e0)
    crash["k"], crash["at"] = "CrashInCmd", at
    Levs = prefix + [crash, ev0("Start"), ev0("Connect", c=spare),
                     ev0("Cmd", c=spare, m=msg0(type="bind", appid=app, side=side)), ev0("Cmd", c=spare, m=m),
                     ev0("Drop", c=spare)]
    Revs = prefix + [copy.deepcopy(e0), ev0("DropAll"), ev0("ManualSweep")]
    cf = dict(cfgd, snapshots=True)
    L = execute(Levs, cf, tuple(conns) + (spare,), table)
    R = execute(Revs, cf, tuple(conns) + (spare,), table)
    oL, oR = L[-2][1], R[-3][1]
    endL, endR = L[-1][1], R[-1][1]
    if oL is None or oR is None or endL is None or endR is None or L[len(prefix)][1] is None:
        return [], H
    if L[len(prefix)][0]["k"] != "CrashInCmd":
        return [], H   # nothing durable happened inside the command: no crash point
    if L[len(prefix) + 1][1] is None or L[len(prefix) + 1][1]["db"] != L[len(prefix)][1]["db"]:
        # The sweep that runs at start-up expired something at this very instant.  In the uninterrupted
        # run the command came first and may have refreshed that channel, so the two runs may
        # legitimately differ (the channel was on the expiry boundary when the process died): such a
        # history decides nothing about re-sending.  (What a start-up sweep may delete is C12 / C13.)
        return [], H
    cL, cR = Canon(), Canon()
    for (e, o) in L[:len(prefix)]:
        if o is not None:
            canon_frames(o["out"], cL); canon_db(o["db"], cL)
    for (e, o) in R[:len(prefix)]:
        if o is not None:
            canon_frames(o["out"], cR); canon_db(o["db"], cR)
    aL = canon_frames(answer_of(oL, spare), cL)
    aR = canon_frames(answer_of(oR, e0["c"]), cR)
    for f in aL + aR:
        f["to"] = "-"
    empty = {"unp": [], "umb": [], "ucv": [], "cur": []}
    return [dict(pid=pid, x=1, li=len(L) - 1, regime="resume", what="answer",
                 L=dict(out=aL, err=oL["err"], db=canon_db(endL["db"], cL), udb=canon_udb(empty)),
                 R=dict(out=aR, err=oR["err"], db=canon_db(endR["db"], cR), udb=canon_udb(empty)),
                 note=dict(cmd=m, at=at, of=ntr))], L


# ---------------------------------------------------------------------------

def check_pairs(lines, workdir, tag):
    import subprocess, shutil
    from .tracecheck import JAVA
    os.makedirs(workdir, exist_ok=True)
    tf = os.path.join(workdir, tag + ".ndjson")
    of = os.path.join(workdir, tag + ".out.json")
    with open(tf, "w") as f:
        for ln in lines:
            for side in ("L", "R"):
                if "v" not in ln[side]:
                    ln[side].setdefault("cands", [])
            f.write(json.dumps({k: ln[k] for k in ("pid", "x", "li", "regime", "what", "L", "R")}, separators=(",", ":")) + "\n")
    with open(os.path.join(workdir, "TP_%s.tla" % tag), "w") as f:
        f.write("---- MODULE TP_%s ----\nEXTENDS TracePair\n====\n" % tag)
    with open(os.path.join(workdir, "TP_%s.cfg" % tag), "w") as f:
        f.write("SPECIFICATION PSpec\nCHECK_DEADLOCK FALSE\n")
    env = dict(os.environ, MBH_TRACE=tf, MBH_OUT=of)
    cmd = JAVA[:1] + ["-XX:+UseSerialGC", "-Xmx3g"] + JAVA[1:] + [
        "tlc2.TLC", "-workers", "1", "-metadir", os.path.join(workdir, "meta_" + tag), "-noGenerateSpecTE",
        "-config", "TP_%s.cfg" % tag, "TP_%s.tla" % tag]
    pr = subprocess.run(cmd, cwd=workdir, env=env, stdout=subprocess.PIPE, stderr=subprocess.STDOUT, text=True)
    shutil.rmtree(os.path.join(workdir, "meta_" + tag), ignore_errors=True)
    if not os.path.exists(of):
        return None, pr.stdout[-5000:]
    return json.load(open(of))["res"], ""


def history(rng, profile, cfgd, conns, tid):
    """one random history on the real code: (token table, [(event, obs)])"""
    T = make_tokens(rng, profile)
    table = {kind: dict(m) for kind, m in T.fwd.items()}
    drv = _mk(cfgd, conns, table)
    try:
        if profile.get("scripted"):
            from .gen import run_scripted
            obs = run_scripted(rng, drv, profile, tid)
        else:
            obs = run_random(rng, drv, profile, tid)
        if profile.get("probe_after_restart"):
            obs += restart_and_probe(rng, drv, profile, tid, len(obs))
    finally:
        drv.close()
    return table, [(o["e"], o) for o in obs]


def restart_and_probe(rng, drv, profile, tid, n0):
    """Stop, start, and then let every side (and a newcomer) come back and try
    what a returning client tries on whatever exists: claim, open, add, list,
    release, close -- with sweeps when they are due."""
    obs = []

    def do(e):
        g0 = drv.tokens.gen
        o = drv.step(e)
        backfill(e, o, g0, drv)
        o["tid"], o["i"] = tid, n0 + len(obs) + 1
        obs.append(o)
        return o
    if not drv.up:
        do(ev0("Start"))
    do(ev0("Stop"))
    if rng.random() < 0.3:
        do(ev0("Advance", d=rng.choice(profile.get("advance", [1, 5, 6]))))
    do(ev0("Start"))
    db = drv.read_channel()
    names = sorted({r["name"] for r in db["np"]}) or list(profile["names"][:1])
    boxes = sorted({r["id"] for r in db["mb"]}) or list(profile["client_mbox"][:1])
    apps = sorted({r["app"] for r in db["mb"]} | {r["app"] for r in db["np"]}) or list(profile["apps"][:1])
    sides = list(profile["sides"]) + ["s4"]
    rng.shuffle(sides)
    if rng.random() < 0.6:
        # strangers first: sides that are not yet on any mailbox come back before the members do
        members = {r["side"] for r in db["mbs"]}
        sides.sort(key=lambda x: x in members)
    slots = list(drv.conn_names)
    for k, side in enumerate(sides[:rng.choice([2, 3, 4])]):
        c = slots[k % len(slots)]
        now = drv.now_ticks()
        if now >= drv.next_sweep:
            do(ev0("Sweep"))
        elif rng.random() < 0.3:
            do(ev0("Advance", d=min(rng.choice([1, 4, 5]), drv.next_sweep - now)))
        if drv.conn_flags()[c]["up"]:
            do(ev0("Drop", c=c))
        do(ev0("Connect", c=c))
        do(ev0("Cmd", c=c, m=msg0(type="bind", appid=rng.choice(apps), side=side)))
        for _ in range(rng.choice([1, 2, 3, 4])):
            ty = rng.choice(["claim", "open", "open", "add", "list", "release", "close", "allocate"])
            m = msg0(type=ty)
            if ty == "claim":
                m["nameplate"] = rng.choice(names)
            elif ty == "open":
                m["mailbox"] = rng.choice(boxes)
            elif ty == "add":
                m["phase"], m["body"] = rng.choice(["p1", "p2"]), rng.choice(["b1", "b2"])
            elif ty == "release":
                m["nameplate"] = rng.choice(names + [ABSENT])
            elif ty == "close":
                m["mailbox"] = rng.choice(boxes + [ABSENT])
                m["mood"] = rng.choice(["happy", "lonely", ABSENT])
            do(ev0("Cmd", c=c, m=m))
    if rng.random() < 0.4:
        # much later: everything has expired; two sides come back to the very same ids (a mailbox id that
        # once belonged to a nameplate is now opened directly), talk and close
        from .gen import quiesce
        quiesce(drv, do)
        a = rng.choice(apps)
        for k, side in enumerate(sides[:2]):
            c = slots[k % len(slots)]
            do(ev0("Connect", c=c))
            do(ev0("Cmd", c=c, m=msg0(type="bind", appid=a, side=side)))
            for i in boxes[:2]:
                if c in drv.protos and not drv.conn_flags()[c]["held"]:
                    do(ev0("Cmd", c=c, m=msg0(type="open", mailbox=i)))
            if c in drv.protos:
                do(ev0("Cmd", c=c, m=msg0(type="add", phase="p9", body="b9")))
        for k, side in enumerate(sides[:2]):
            c = slots[k % len(slots)]
            if c in drv.protos:
                do(ev0("Cmd", c=c, m=msg0(type="close", mailbox=ABSENT, mood=rng.choice(["happy", ABSENT]))))
            if c in drv.protos:
                do(ev0("Drop", c=c))
    return obs


REGIME_CFG = {
    # (idle: a restarted server that meets another app's leftovers, clients that sit subscribed for long)
    "iso": dict(profile="apps", alt_profile="script2", third_profile="allociso", fourth_profile="idle",
                over=dict(left_choices=["otherapp", "otherapp", "channel", "none"]), cfgs=[dict(allow=True, usage=True, blur=0), dict(allow=True, usage=False, blur=0)]),
    "restart": dict(profile="mailbox", alt_profile="script",
                    over=dict(w_stop=2.0, w_crash=0, w_advance=4, steps=45, sides=["s1", "s2", "s3"], nonstring=0.25),
                    cfgs=[dict(allow=True, usage=True, blur=0), dict(allow=True, usage=False, blur=0)]),
    "resend": dict(profile="crowd", over=dict(conns=("c1", "c2", "c3"), names=["1", "x"], empty_name=0.4),
                   cfgs=[dict(allow=True, usage=False, blur=0), dict(allow=True, usage=True, blur=0)]),
    "config": dict(profile="nameplate", over=dict(w_advance=3, w_allocate=3, badcv=0.12), cfgs=[dict(allow=True, usage=False, blur=0)]),
    "resume": dict(profile="mailbox", over=dict(w_stop=0, w_crash=0),
                   cfgs=[dict(allow=True, usage=False, blur=0, snapshots=True), dict(allow=True, usage=True, blur=0, snapshots=True)]),
}
# (20 ticks = 20 minutes: a blur interval longer than the channel expiration time)
ALT_CFGS = [dict(allow=a, usage=u, blur=b) for a in (True, False) for u in (False, True) for b in (0, 3, 7, 20)
            if not (a and not u and b == 0) and not (not u and b)]


def one_pair(regime, seedstr, pid):
    """Generate one history and its pair; deterministic in (regime, seedstr)."""
    from . import plans
    rc = REGIME_CFG[regime]
    rng = random.Random("pair/%s/%s" % (regime, seedstr))
    random.seed(rng.random())
    pname = rc["profile"]
    if rc.get("alt_profile") and rng.random() < 0.5:
        pname = rc["alt_profile"]
    if rc.get("third_profile") and rng.random() < 0.25:
        pname = rc["third_profile"]
    if rc.get("fourth_profile") and rng.random() < 0.2:
        pname = rc["fourth_profile"]
    prof = dict(plans.PROFILES[pname])
    prof.update(rc.get("over", {}))
    if regime == "restart":
        # a disturbed prefix, then the restart, then every side probes what exists
        prof.update(w_stop=0, w_crash=0, final_quiesce=False, probe_after_restart=True,
                    steps=rng.choice([12, 20, 30, 45]))
    conns = tuple(prof.get("conns", ("c1", "c2", "c3")))
    prof["conns"] = conns
    if "prefill_spec" in prof:
        from .gen import make_prefill
        prof["prefill"] = make_prefill(rng, prof)
        prof["skip_prefill_lines"] = False
    cfgd = dict(rng.choice(rc["cfgs"]))
    table, H = history(rng, prof, cfgd, conns, pid)
    info = dict(regime=regime, seed=seedstr, cfg=cfgd)
    if regime == "iso":
        B = rng.choice(prof["apps"])
        lines, L = pair_iso(H, cfgd, conns, table, B, pid)
        info["app"] = B
    elif regime == "restart":
        lines, L = pair_restart(H, cfgd, conns, table, pid)
    elif regime == "resend":
        lines, L = pair_resend(H, cfgd, conns, table, pid, rng)
        conns = conns + ("cx",)
    elif regime == "config":
        alt = dict(rng.choice(ALT_CFGS))
        lines, L = pair_config(H, cfgd, alt, conns, table, pid)
        info["alt"] = alt
    elif regime == "resume":
        lines, L = pair_resume(H, cfgd, conns, table, pid, rng)
        conns = conns + ("cx",)
        cfgd = dict(cfgd, snapshots=True)
    # the connection slots of the left execution (the spare one only if it was really used)
    for (e, o) in L:
        if o is not None:
            conns = tuple(sorted(o["hid"]["conn"].keys()))
            break
    return dict(pid=pid, lines=lines, L=L, conns=conns, cfg=cfgd, info=info, table=table)
