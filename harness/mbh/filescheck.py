"""check C19 / C20: DbFilesMC model-checked by TLC, plus recorded runs of the
real entry points (killed at every step, then restarted) judged by
FilesTrace.tla."""
import json, os, shutil, sys, time, hashlib, subprocess, re
from concurrent.futures import ProcessPoolExecutor

HERE = os.path.dirname(os.path.abspath(__file__))
VERIF = os.path.dirname(os.path.dirname(HERE))
from . import dbfiles
from .tracecheck import JAVA

CLAUSES = {"C19": ["C19.a", "C19.b", "C19.c", "C19.d", "C19.e"], "C20": ["C20.a", "C20.b", "C20.c"]}


def log(*a):
    print(*a, flush=True)


def model_check(kind, work):
    """all histories of <= 3 runs from every initial content, crash anywhere"""
    d = os.path.join(work, "mc_" + kind)
    os.makedirs(d, exist_ok=True)
    n = len(dbfiles.full_names(kind, dbfiles.TARGET[kind]))
    tgt = dbfiles.TARGET[kind]
    db = lambda schema, ver, data: '[t |-> "db", schema |-> "%s", ver |-> %s, data |-> "%s", sha |-> "s0"]' % (schema, ver, data)
    init = ['[t |-> "absent"]', '[t |-> "junk", sha |-> "empty"]', '[t |-> "junk", sha |-> "s0"]',
            db("full:%d" % tgt, "<<%d>>" % tgt, "R"), db("full:%d" % tgt, "<<%d>>" % (tgt + 7), "R"),
            db("full:%d" % tgt, "<<>>", "R"), db("other", "<<%d>>" % tgt, "R")]
    if kind == "usage":
        init += [db("full:1", "<<1>>", "R"), db("full:1", "<<1>>", "nodata")]
    with open(os.path.join(d, "FMC.tla"), "w") as f:
        f.write("---- MODULE FMC ----\nEXTENDS DbFilesMC\ncInit == {%s}\n====\n" % ", ".join(init))
    with open(os.path.join(d, "FMC.cfg"), "w") as f:
        f.write('SPECIFICATION FSpec\nCONSTANTS\n  Kind = "%s"\n  Target = %d\n  NCreate = %d\n  HasUpgrader = %s\n'
                '  AtomicUpgrade = TRUE\n  InitialContents <- cInit\n  Entries = {"get", "create", "open"}\n  MaxRuns = 3\n'
                'INVARIANT FileInv\nCHECK_DEADLOCK FALSE\n' % (kind, tgt, n, "{1}" if kind == "usage" else "{}"))
    cmd = JAVA[:1] + ["-Xmx4g"] + JAVA[1:] + ["tlc2.TLC", "-workers", "4", "-metadir", os.path.join(d, "meta"),
                                                "-noGenerateSpecTE", "-config", "FMC.cfg", "FMC.tla"]
    pr = subprocess.run(cmd, cwd=d, stdout=subprocess.PIPE, stderr=subprocess.STDOUT, text=True)
    m = re.search(r"(\d+) states generated, (\d+) distinct states found", pr.stdout)
    ok = "No error has been found" in pr.stdout
    return dict(instance="DbFilesMC/" + kind, mode="exhaustive", generated=int(m.group(1)) if m else 0,
                distinct=int(m.group(2)) if m else 0, complete=ok, maxruns=3), (None if ok else pr.stdout[-3000:])


def gen_job(job):
    kind, tier, seed, work, part, nparts = job
    import random
    rng = random.Random("dbfiles/%s/%d" % (kind, seed))
    todo = []
    for rnd in range(1 if tier == "quick" else 10):
        # thorough: ten rounds of freshly generated contents (other rows, other truncation offsets, other junk)
        for (cname, maker) in dbfiles.contents(kind, random.Random("dbfiles/%s/%d/%d" % (kind, seed, rnd)), tier):
            for entry in ("get", "create", "open"):
                todo.append((cname, maker, entry))
    lines, sid = [], part * 100000
    for idx, (cname, maker, entry) in enumerate(todo):
        if idx % nparts != part:
            continue
        crash = entry in ("get", "create") and cname in ("absent", "older", "older-norows", "older-stalebackup", "current", "newer") \
            and not (entry == "create" and cname != "absent")
        r2 = random.Random("dbfiles/%s/%d/%d" % (kind, seed, idx))
        mk = dict(dbfiles.contents(kind, r2, "quick"))[cname] if False else maker
        ls, n = dbfiles.scenario(kind, cname, mk, entry, r2, work, sid, crash=crash)
        lines += ls
        sid += n
    return kind, lines


def do_replay(prop, path):
    """re-run the recorded history (same kind of initial content, same entry points and kill positions)"""
    import random, tempfile
    body = json.load(open(path))
    kind, cname = body["kind"], body["content"]
    rng = random.Random(path)
    maker = dict(dbfiles.contents(kind, rng, "quick"))[cname]
    tmp = "/dev/shm" if os.path.isdir("/dev/shm") else None
    base = tempfile.mkdtemp(prefix="dbf-replay-", dir=tmp)
    try:
        d = os.path.join(base, "run")
        os.makedirs(d)
        maker(os.path.join(d, dbfiles.MAIN))
        mp = os.path.join(d, dbfiles.MAIN)
        s0 = open(mp, "rb").read() if os.path.exists(mp) else None
        scratch = os.path.join(base, "scratch")
        first = dbfiles.abstract_dir(d, kind, s0, scratch)["main"]
        full = {"get": "get-" + kind, "create": "create-" + kind, "open": "open"}
        lines = []
        for i, h in enumerate(body["history"]):
            pre = dbfiles.abstract_dir(d, kind, s0, scratch)
            r = dbfiles.run_child(full[h["entry"]], mp, h["crash_at"])
            post = dbfiles.abstract_dir(d, kind, s0, scratch)
            lines.append(dict(sid=1, i=i + 1, kind=kind, content=cname, entry=h["entry"], crash_at=h["crash_at"],
                              pre=pre, post=post, result=dbfiles.model_result(r["result"]), raw=r["result"], first=first))
            log("%d %s%s -> %s" % (i + 1, h["entry"], "" if h["crash_at"] < 0 else " killed at step %d" % h["crash_at"], r["result"]))
        res, lg = dbfiles.check_lines(lines, kind, os.path.join(base, "ft"), "replay")
        if res is None:
            log("machinery failure:", lg[-2000:])
            return 2
        bad = [r for r in res if r["kind"] == "prop" and set(r["what"]) & set(CLAUSES[prop])]
        if bad:
            log("VIOLATION property=%s replay=%s  clauses=%s" % (prop, path, sorted(set(bad[0]["what"]) & set(CLAUSES[prop]))))
            return 1
        log("replay: property %s held on this history" % prop)
        return 0
    finally:
        shutil.rmtree(base, ignore_errors=True)


def main(prop, tier, seed, replay):
    if replay:
        return do_replay(prop, replay)
    t0 = time.monotonic()
    base = os.environ.get("MBH_WORK") or os.path.join(VERIF, "work")
    work = os.path.join(base, "%s-%d" % (prop, os.getpid()))
    shutil.rmtree(work, ignore_errors=True)
    os.makedirs(work)
    tmp = "/dev/shm" if os.path.isdir("/dev/shm") else work
    mine = set(CLAUSES[prop])
    problems, stats, status = [], [], 0
    try:
        kinds = ["channel", "usage"] if prop == "C19" else ["usage"]
        nparts = 8
        with ProcessPoolExecutor(max_workers=16) as pool:
            mcf = [pool.submit(model_check, k, work) for k in kinds]
            futs = [pool.submit(gen_job, (k, tier, seed, tmp, p, nparts)) for k in kinds for p in range(nparts)]
            bykind = {k: [] for k in kinds}
            for fu in futs:
                k, ls = fu.result()
                bykind[k] += ls
            for fu in mcf:
                st, err = fu.result()
                stats.append(st)
                if err:
                    problems.append("TLC on %s: %s" % (st["instance"], err))
        verdicts, all_lines = [], []
        for k in kinds:
            res, lg = dbfiles.check_lines(bykind[k], k, os.path.join(work, "ft"), k)
            if res is None:
                problems.append("FilesTrace on %s failed: %s" % (k, lg))
                continue
            for r in res:
                r["k"] = k
            verdicts += res
            all_lines += bykind[k]
        by = {(l["kind"], l["sid"], l["i"]): l for l in all_lines}
        drift = [r for r in verdicts if r["kind"] == "conf"]
        viol = []
        for r in verdicts:
            if r["kind"] == "prop" and set(r["what"]) & mine:
                viol.append((by[(r["k"], r["sid"], r["i"])], sorted(set(r["what"]) & mine)))
        if drift:
            log("DRIFT: %d recorded runs leave a directory the specification (DbFiles) does not predict, "
                "while every clause of %s holds on them" % (len(drift), prop))
            if os.environ.get("MBH_VERBOSE"):
                for r in drift[:int(os.environ["MBH_VERBOSE"])]:
                    l = by[(r["k"], r["sid"], r["i"])]
                    log("  drift", json.dumps({k: l[k] for k in ("kind", "content", "entry", "crash_at", "pre", "post", "result", "raw")}))
        seen = set()
        for (l, cls) in viol:
            key = (l["kind"], l["content"], l["entry"], tuple(cls))
            history = [x for x in all_lines if x["kind"] == l["kind"] and x["sid"] == l["sid"] and x["i"] <= l["i"]]
            body = dict(property=prop, clauses=cls, kind=l["kind"], content=l["content"],
                        history=[{k: x[k] for k in ("entry", "crash_at", "pre", "post", "result", "raw")} for x in history])
            h = hashlib.sha1(json.dumps(body, sort_keys=True).encode()).hexdigest()[:12]
            os.makedirs(os.path.join(VERIF, "replays"), exist_ok=True)
            path = os.path.join(VERIF, "replays", "%s-%s.json" % (prop, h))
            json.dump(body, open(path, "w"), indent=1)
            if key not in seen and len(seen) < 10:
                log("VIOLATION property=%s replay=%s  clauses=%s %s database, initial content %s: %s"
                    % (prop, path, cls, l["kind"], l["content"],
                       "; ".join("%s%s -> %s" % (x["entry"], "" if x["crash_at"] < 0 else " killed at step %d" % x["crash_at"], x["raw"]) for x in history)))
            seen.add(key)
            status = 1
        if problems:
            for p in problems[:4]:
                log("MACHINERY:", p)
            status = status or 2
        histories = {(l["kind"], l["sid"]) for l in all_lines}
        crashed = {(l["kind"], l["sid"]) for l in all_lines if l["result"] == "crashed"}
        sample = [dict(kind=l["kind"], content=l["content"], entry=l["entry"], crash_at=l["crash_at"],
                       result=l["raw"], post=l["post"]) for l in all_lines if l["result"] == "crashed"][:3]
        ev = dict(property_id=prop, tier=tier, seed=seed, level="model_checking",
                  coverage=dict(states=max(1, sum(s["distinct"] for s in stats)),
                                transitions=max(1, sum(s["generated"] for s in stats)),
                                traces_validated_against_impl=len(histories),
                                evaluations=len(all_lines), distinct_nontrivial=len(crashed),
                                rule="one history = one initial file content x one entry point x one kill position, followed by "
                                     "two normal starts; non-trivial = the first run was actually killed mid-way; every kill "
                                     "position of every intercepted sqlite statement / commit / close / mkstemp / rename / copy "
                                     "is enumerated (exhaustive over positions for the generated contents)",
                                samples=sample or [dict(note="no killed run")], exhaustive=False, tlc_instances=stats,
                                conformance_rejections=len(drift)),
                  assumptions=["A2: SQLite's rollback journal recovers an interrupted transaction",
                               "os._exit at an intercepted call models kill -9; power loss (lost fsync) is not modelled",
                               "file contents are abstracted to (schema class, version rows, hash of all data rows, bytes equal to the initial file?)"],
                  wall_s=round(time.monotonic() - t0, 1), violations=len(viol))
        os.makedirs(os.path.join(VERIF, "evidence"), exist_ok=True)
        json.dump(ev, open(os.path.join(VERIF, "evidence", prop + ".json"), "w"), indent=1)
        log("%s %s: %d histories (%d runs, %d killed mid-way) judged, %d violations, %.0fs"
            % (prop, tier, len(histories), len(all_lines), len(crashed), len(viol), time.monotonic() - t0))
        return status
    finally:
        shutil.rmtree(work, ignore_errors=True)
