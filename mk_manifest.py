#!/usr/bin/env python3
"""Regenerates MANIFEST.json from harness/mbh/plans.py (run after changing the plan)."""
import json, sys, os
sys.path.insert(0, os.path.join(os.path.dirname(os.path.abspath(__file__)), "harness"))
from mbh import plans

ALL = ["C%02d" % i for i in range(1, 21)]
TEXT = {
 "C01": "open replays exactly the accepted, not yet discarded messages (bag equality with the observer's own record of accepted adds; stored messages = accepted messages). Known finding F10 (non-string phase/body/id replayed as strings).",
 "C02": "every accepted add is sent exactly once, unmodified and with the binder's side, to exactly the connections that are subscribed by the protocol's definition; message frames only on add/open; also when another subscriber is in its closing handshake and the send to it fails (fixed finding F11)",
 "C03": "claimed answers name the live nameplate's mailbox, it never changes while the nameplate lives, new incarnations get never-used ids, no sharing, (app,name) is a key; plus the two ends of an incarnation: C07.a (it ends only by the causes C07 lists) and C07.e (after the last acknowledged release the name is free, also when the release had to be re-sent after a kill)",
 "C04": "allocated names are free, of the shortest class that has a free value (real class bounds 1-9/10-99/100-999/longer), held by the allocating side in the durable state reached when the answer is sent; listing allowed and disallowed; a quick history with all 999 short names in use",
 "C05": "per mailbox / nameplate incarnation at most two sides are ever subscribed, sent messages or told the id; refused third sides change no stored message; keep-access clause = known finding F6",
 "C06": "single run: a command of one app leaves every other app's rows and usage records untouched, and a bound connection cannot bind again (C06.bind); pairs (TracePair, MBPair regime iso): app B's frames, rows, usage records and allocate candidate sets are equal with and without the other apps' commands. Known finding F2.",
 "C07": "claims end only by the side's own release, expiry, or deletion of the nameplate's mailbox; row exists iff held; release idempotent and answered released; no re-claim; `list` shows exactly the live nameplates (C18.a) and a name is unlisted after the last release",
 "C08": "close completes with `closed` (an internal failure counts as not completed); while another side is open everything of the mailbox stays; the last close deletes exactly the mailbox and what hangs off it, nothing unrelated; after one side's close messages still reach exactly the subscribed connections (C08.e)",
 "C09": "every frame is emitted with nothing uncommitted (measured: no open transaction, or the server's view equals an independent reader's); what a frame acknowledges is in the durable state reached when it was sent; durable changes are detected at every SQL statement, not only at commit() calls",
 "C10": "every durable state is well formed; restart succeeds; after a crash nothing fails internally and the store empties once nobody returns (incl. a kill after EVERY durable change of chosen commands); pairs (regime resume): crash inside claim/release/open/close + restart + re-send = no crash. Known finding F2.",
 "C11": "pairs (TracePair regime restart; MBPair regime restart): server rebuilt from the files vs. server object kept, same continuation (every side and a newcomer probe what exists, sweeps at the same instants): equal frames, channel rows and usage records",
 "C12": "a sweep leaves untouched every channel with a claim/allocate/open/add within EXP or a subscriber; away grace (a subscriber seen less than EXP-PERIOD ago); nothing but sweeps/closes/releases removes rows; real TimerService under virtual time",
 "C13": "a completed sweep removes every idle channel completely; a sweep at every period while the service is up, also after a failed one (injected OperationalError on the first database access); quiescence: everybody gone for EXP+PERIOD => all five tables empty",
 "C14": "pairs (TracePair regime resend; MBPair regime resend): an acknowledged claim/release/open/close duplicated on a fresh connection of the same side is answered like the original and changes neither later frames nor channel rows. Known finding F6.",
 "C15": "per retirement exactly one usage record with started/waiting/total derived from the observer's own record of arrivals and the documented precedence; status row = number of subscribed connections; plus the whole finite domain of the real summary functions (Classify.tla)",
 "C16": "every new usage timestamp is a multiple of the blur interval and within one interval below the true time, on every path (release, close, mailbox deletion, expiry, bind), for intervals in minutes, in seconds not dividing a minute, and with 1/100 s arrival times; plus Classify.tla",
 "C17": "welcome first with the configured notices; ack first echoing id; well-formed frames; ping/pong; each listed protocol error = exactly one error frame, no stored change; the connection stays usable afterwards (C17.g); no internal failure (known findings F2, F10 apart; fixed finding F11: a subscriber in its closing handshake during an add); awkward Unicode / empty strings for every identifier",
 "C18": "list answers exactly the live nameplates or nothing when disallowed; pairs (TracePair regime config; MBPairCfg): same history under other listing/usage/blur options gives equal frames (names payload apart), channel rows and allocate candidate sets",
}
FILES = {
 "C19": "database files are created atomically and never clobbered: clauses C19.a-e of spec/DbFiles.tla",
 "C20": "the usage v1->v2 upgrade keeps every record, saves a byte-identical backup first, and can be retried after any kill: clauses C20.a-c of spec/DbFiles.tla",
}
def check_files(pid):
    return {
      "property_id": pid,
      "quick_cmd": "./check %s --tier quick" % pid,
      "thorough_cmd": "./check %s --tier thorough" % pid,
      "evidence_file": "evidence/%s.json" % pid,
      "replay_cmd_template": "./check %s --replay {path}" % pid,
      "engine": "tlc+files",
      "level_claimed": {"category": "model_checking",
        "text": ("TLC checks spec/DbFilesMC.tla (every history of up to three runs of the create-or-upgrade / create-only / "
                 "open-only entry points from every class of initial file content, killed after any durable change) against the "
                 "clauses; the real entry points are run in child processes killed (os._exit) at every intercepted sqlite "
                 "statement, commit, close, mkstemp, rename and copy, then restarted twice, and TLC (spec/FilesTrace.tla) judges "
                 "the recorded directory snapshots: conformance with DbFiles!Run and the same clauses. " + FILES[pid]),
        "design_ref": "DESIGN.md section 5 (%s)" % pid},
      "level_note": "Trusted: SQLite journal recovery (A2); kill -9 semantics (no lost fsync); file contents abstracted to schema class / version rows / hash of data rows / bytes-equal-to-initial.",
      "technique": "TLA+ specification of the file life cycle model-checked with TLC; out-of-process crash injection at every step, snapshots validated against the specification by TLC",
    }
def check(pid):
    if pid in FILES:
        return check_files(pid)
    plan = plans.PLAN[pid]
    return {
      "property_id": pid,
      "quick_cmd": "./check %s --tier quick" % pid,
      "thorough_cmd": "./check %s --tier thorough" % pid,
      "evidence_file": "evidence/%s.json" % pid,
      "replay_cmd_template": "./check %s --replay {path}" % pid,
      "engine": "tlc+trace",
      "level_claimed": {
        "category": "model_checking",
        "text": ("TLC checks the clauses %s of spec/MBProps.tla on bounded instances of spec/MBServer.tla "
                 "(exhaustive to a stated depth; instances %s); the same clauses are evaluated by TLC "
                 "(spec/TraceCheck.tla) on executions of the real code recorded by the in-process harness: "
                 "behaviours generated by TLC -simulate replayed on the code, random and scripted histories%s; every "
                 "recorded step is also checked for conformance with the specification's Step. %s%s%s"
                 % (plan["clauses"], [m[0] for m in plan["mc"]],
                    (", and the executions of the repository's own websocket tests recorded from outside" if plan.get("tests") else ""),
                    (" Relational part: lock-step self-composition spec/MBPair*.tla model-checked by TLC, and pairs of real "
                     "executions (regimes %s) compared by TLC (spec/TracePair.tla). " % [r[0] for r in plan["pairs"]]) if plan.get("pairs") else "",
                    " Summary functions over their whole finite input domain: spec/Classify.tla. " if plan.get("classify") else "",
                    TEXT.get(pid, ""))),
        "design_ref": "DESIGN.md section 5 (%s), sections 3-4" % pid},
      "level_note": ("Trusted: SQLite atomic commit / FK enforcement (A2), Twisted/autobahn framing below "
                     "onOpen/onMessage/onClose/sendMessage (A3), no 64-bit mailbox-id collisions (A1), TLC. "
                     "Exhaustive only up to the depth / constants recorded in the evidence; beyond that simulation "
                     "and validated traces. A conformance rejection with all clauses passing downgrades the run "
                     "to exploration (DRIFT)."),
      "technique": "TLA+ specification model-checked with TLC; spec->code replay of TLC behaviours and code->spec trace validation (conformance + property monitors) by TLC",
    }
NA = {p: "not claimed" for p in ALL}
m = {
  "version": 1,
  "setup_cmd": "./setup.sh",
  "hooks": {"guard": "WORMHOLE_MAILBOX_VERIF", "enable": "no source hooks are needed: the harness observes through public seams (makeService(reactor=), sendMessage, module-level time/random/sqlite3 names)",
            "baseline_off_cmd": "cd /repo && /venv/bin/python -m pytest -ra -q -p no:cacheprovider --timeout=900 --continue-on-collection-errors",
            "source_commits": [], "add_only": True},
  "engines": [
    {"name": "tlc", "path": "spec/", "serves_properties": sorted(plans.PLAN), "kind_free_text": "TLA+ specification (MBCore, MBProps, MBServer) model-checked by TLC"},
    {"name": "files", "path": "harness/mbh/dbfiles.py", "serves_properties": ["C19", "C20"], "kind_free_text": "child-process crash injection into database.py + DbFiles.tla / FilesTrace.tla"},
    {"name": "trace", "path": "harness/mbh/", "serves_properties": sorted(plans.PLAN), "kind_free_text": "in-process service-level driver of the real code + TraceCheck.tla (conformance and monitors)"}],
  "checks": [check(p) for p in sorted(set(plans.PLAN) | set(FILES))],
  "not_applicable": [{"property_id": p, "reason": NA[p]} for p in ALL if p not in plans.PLAN and p not in FILES],
  "notes": "One entry point: ./check <Cxx> [--tier quick|thorough] [--replay file]. VERIF_SEED seeds TLC -seed and the generators.",
}
json.dump(m, open(os.path.join(os.path.dirname(os.path.abspath(__file__)), "MANIFEST.json"), "w"), indent=1)
print("checks:", [c["property_id"] for c in m["checks"]])
