#!/bin/sh
# runs every registered quick check in sequence (what `vp check` does) and prints one line per check
cd "$(dirname "$0")"
for p in $(python3 -c "import json;print(' '.join(c['property_id'] for c in json.load(open('MANIFEST.json'))['checks']))"); do
  t0=$(date +%s)
  ./check $p --tier ${1:-quick} > work/run_$p.log 2>&1; rc=$?
  t1=$(date +%s)
  echo "$p rc=$rc $((t1-t0))s $(grep -c '^VIOLATION' work/run_$p.log) violations; $(grep '^DRIFT\|^KNOWN\|^MACHINERY' work/run_$p.log | cut -c1-100 | tr '\n' '|')"
done
