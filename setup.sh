#!/bin/sh
# MANIFEST.setup_cmd: nothing to build (the target is Python, imported from
# /repo/src at run time); parse every specification module and make sure the
# directories the checks write to exist.
set -e
cd "$(dirname "$0")"
mkdir -p evidence replays work
cd spec
for m in MBCore MBProps MBServer MBPair MBPairCfg Classify ClassifyDoc TraceCheck TracePair DbFiles DbFilesMC FilesTrace; do
  java -cp /opt/veriftools/tla/tla2tools.jar:/opt/veriftools/tla/CommunityModules-deps.jar tla2sany.SANY $m.tla > ../work/sany_$m.log 2>&1 || { cat ../work/sany_$m.log; exit 1; }
  if grep -q "Semantic errors\|\*\*\* Errors\|Parse Error\|Fatal errors" ../work/sany_$m.log; then cat ../work/sany_$m.log; exit 1; fi
done
echo "setup ok"
