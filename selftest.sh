#!/bin/sh
# not a property check: shows that corrupting one recorded field makes TraceCheck reject the trace
here=$(cd "$(dirname "$0")" && pwd)
export PYTHONHASHSEED=0 PYTHONWARNINGS=ignore PYTHONDONTWRITEBYTECODE=1
exec /venv/bin/python "$here/harness/mbh/selftest.py"
