----------------------------- MODULE BlurLemma -----------------------------
(* C16, arithmetic clause: for every blur interval b > 0 and every time t >= 0 (in ticks),
   the stored value b * (t \div b) is a multiple of b and lies in (t - b, t]. *)
EXTENDS Integers, TLAPS

Blurred(b, t) == b * (t \div b)

LEMMA MulPos == ASSUME NEW b \in Nat, b > 0, NEW d \in Int, d >= 1 PROVE b * d >= b
  BY SMT
LEMMA MulNeg == ASSUME NEW b \in Nat, b > 0, NEW d \in Int, d <= -1 PROVE b * d <= -b
  BY SMT

LEMMA DivMod == ASSUME NEW b \in Nat, b > 0, NEW x \in Int
                PROVE x \div b \in Int /\ x % b \in Int /\ x = b * (x \div b) + (x % b) /\ 0 <= x % b /\ x % b < b
  BY SMT
LEMMA Distr == ASSUME NEW b \in Int, NEW q \in Int, NEW k \in Int PROVE b * (q - k) = b * q - b * k
  BY SMT
LEMMA MulInt == ASSUME NEW b \in Int, NEW q \in Int PROVE b * q \in Int
  BY SMT

THEOREM BlurWindow ==
  ASSUME NEW b \in Nat, b > 0, NEW t \in Nat
  PROVE  /\ Blurred(b, t) % b = 0
         /\ Blurred(b, t) <= t
         /\ t < Blurred(b, t) + b
<1> DEFINE q == t \div b
<1> DEFINE x == b * q
<1> DEFINE k == x \div b
<1> DEFINE r == x % b
<1>1. q \in Int /\ t = b * q + (t % b) /\ 0 <= t % b /\ t % b < b
  BY SMT
<1>2. Blurred(b, t) <= t /\ t < Blurred(b, t) + b
  BY <1>1, SMT DEF Blurred
<1>3. x \in Int /\ k \in Int /\ r \in Int /\ x = b * k + r /\ 0 <= r /\ r < b
  <2>1. x \in Int BY <1>1, MulInt
  <2> QED BY <2>1, DivMod
<1>4. b * (q - k) = r
  <2>1. b * (q - k) = b * q - b * k BY <1>1, <1>3, Distr
  <2> QED BY <2>1, <1>3, SMT
<1>5. r = 0
  <2>1. CASE q - k >= 1
    BY <2>1, <1>1, <1>3, <1>4, MulPos, SMT
  <2>2. CASE q - k <= -1
    BY <2>2, <1>1, <1>3, <1>4, MulNeg, SMT
  <2>3. CASE q - k = 0
    BY <2>3, <1>1, <1>3, <1>4, SMT
  <2> QED BY <2>1, <2>2, <2>3, <1>1, <1>3, SMT
<1> QED BY <1>2, <1>5 DEF Blurred
=============================================================================
