#!/bin/sh
# usage: tlc.sh <metadir-tag> <args...>   (runs TLC with /verif/spec on the library path)
tag=$1; shift
exec java -XX:+UseParallelGC -Xmx12g -cp /opt/veriftools/tla/tla2tools.jar:/opt/veriftools/tla/CommunityModules-deps.jar -DTLA-Library=/verif/spec tlc2.TLC -metadir "${TMPDIR:-/tmp}/tlcmeta/$tag.$$" -noGenerateSpecTE "$@"
