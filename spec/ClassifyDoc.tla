----------------------------- MODULE ClassifyDoc -----------------------------
(***************************************************************************)
(* The usage classification of the specification (MBCore!SummMb / SummNp,  *)
(* a transcription of AppNamespace._summarize_mailbox / _nameplate_usage)  *)
(* agrees with the DOCUMENTED precedence -- crowded, then pruney, then for *)
(* mailboxes scary, errory, lonely, else happy / lonely by number of sides *)
(* -- on the whole finite domain: 0..4 sides, every assignment of a mood   *)
(* (happy, lonely, errory, scary, an unknown one, the empty string, none)  *)
(* to each side, pruned or not.  Checked by TLC as an ASSUME (no states).  *)
(***************************************************************************)
EXTENDS Integers, Sequences, FiniteSets, TLC

C == INSTANCE MBCore WITH Apps <- {"a"}, AppOrder <- <<"a">>, Sides <- {}, Conns <- {}, Class1 <- {}, Class2 <- {},
       Class3 <- {}, LongNames <- {}, OtherNames <- {}, ClientMbox <- {}, GenMbox <- <<>>, EXP <- 11, PERIOD <- 5,
       AllowList <- TRUE, UsageOn <- TRUE, Blur <- 0, Welcome <- "w0", BadMoods <- {}

Moods == {"happy", "lonely", "errory", "scary", "weird", "", "~"}
SideNames == <<"s1", "s2", "s3", "s4">>

DocMb(n, moods, pruned) ==
  IF n > 2 THEN "crowded" ELSE IF pruned THEN "pruney"
  ELSE IF "scary" \in moods THEN "scary" ELSE IF "errory" \in moods THEN "errory"
  ELSE IF "lonely" \in moods THEN "lonely"
  ELSE IF n = 0 THEN "quiet" ELSE IF n = 1 THEN "lonely" ELSE "happy"
DocNp(n, pruned) == IF n > 2 THEN "crowded" ELSE IF pruned THEN "pruney" ELSE IF n = 2 THEN "happy" ELSE "lonely"

Rows(f) == {[mbox |-> "m", side |-> SideNames[k], opened |-> FALSE, added |-> k, mood |-> f[k]] : k \in DOMAIN f}
NpRows(n) == {[app |-> "a", name |-> "1", side |-> SideNames[k], claimed |-> FALSE, added |-> k] : k \in 1..n}

ASSUME MailboxRule ==
  \A n \in 0..4 : \A f \in [1..n -> Moods] : \A pruned \in BOOLEAN :
     C!SummMb("a", TRUE, Rows(f), 10, pruned).result = DocMb(n, {f[k] : k \in 1..n}, pruned)
ASSUME NameplateRule ==
  \A n \in 1..4 : \A pruned \in BOOLEAN : C!SummNp("a", NpRows(n), 10, pruned).result = DocNp(n, pruned)
\* times: first arrival, gap to the second, total
ASSUME Times ==
  \A n \in 1..4 : LET m == C!SummNp("a", NpRows(n), 10, FALSE) IN
     m.started = 1 /\ m.total = 9 /\ m.waiting = (IF n > 1 THEN 1 ELSE -1)

VARIABLE dummy
Spec == dummy = 0 /\ [][UNCHANGED dummy]_dummy
=============================================================================
