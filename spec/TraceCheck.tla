----------------------------- MODULE TraceCheck -----------------------------
(***************************************************************************)
(* Checks executions recorded from the real code (ndjson, one line per     *)
(* step, many traces per file) against the specification, two ways:        *)
(*                                                                         *)
(*  conformance  every logged step must be MBCore!Step of the logged       *)
(*               event on the logged pre-state, with exactly the logged    *)
(*               frames, durable states, error and post-state -- including *)
(*               the implementation's connection flags;                    *)
(*  monitors     the property predicates of MBProps (the ones TLC checks   *)
(*               on the model) evaluated on the logged black-box           *)
(*               observations, with the ghost maintained from them.        *)
(*                                                                         *)
(* The behaviour of this spec is linear (one successor per line); verdicts *)
(* are collected in `res` and written as JSON when the last line has been  *)
(* consumed, so one TLC run judges a whole batch and never stops early.    *)
(***************************************************************************)
EXTENDS MBProps, Json, IOUtils

CONSTANTS PropIds      \* which clauses (MBProps!ClauseIds) to evaluate

TraceFile == IOEnv.MBH_TRACE
OutFile   == IOEnv.MBH_OUT
Trace     == ndJsonDeserialize(TraceFile)

VARIABLES l,      \* next line to consume
          g,      \* ghost
          res,    \* verdicts so far
          cnt     \* per clause: on how many steps its antecedent was true (vacuity guard)

tvars == <<l, g, res, cnt>>

DbOf(j)  == [np |-> Range(j.np), nps |-> Range(j.nps), mb |-> Range(j.mb),
             mbs |-> Range(j.mbs), msgs |-> j.msgs, anom |-> Range(j.anom)]
UdbOf(j) == [unp |-> j.unp, umb |-> j.umb, ucv |-> j.ucv, cur |-> j.cur]
FrameOf(f) == [f EXCEPT !.names = Range(@)]
OutOf(s)  == [k \in DOMAIN s |-> FrameOf(s[k])]
TrOf(s)   == [k \in DOMAIN s |-> Snap(DbOf(s[k].db), UdbOf(s[k].udb))]
ConnOf(j) == [c \in Conns |-> j[c]]

\* the system state a line leaves behind
StateOf(ln) == [db |-> DbOf(ln.db), udb |-> UdbOf(ln.udb), conn |-> ConnOf(ln.hid.conn),
                now |-> ln.now, nextSweep |-> ln.hid.nextSweep, up |-> ln.hid.up,
                rebooted |-> ln.hid.rebooted, gen |-> ln.hid.gen]

First(k) == k = 1 \/ Trace[k - 1].tid # Trace[k].tid
\* a trace may start from a given state (after a long set-up that is not recorded)
HasPre(k) == "db" \in DOMAIN Trace[k].pre
Pre(k)   == IF HasPre(k) THEN StateOf(Trace[k].pre)
            ELSE IF First(k) THEN InitState ELSE StateOf(Trace[k - 1])

UBag(u) == [unp |-> BagOfSeq(u.unp), umb |-> BagOfSeq(u.umb), ucv |-> BagOfSeq(u.ucv),
            cur |-> u.cur]
SnapEq(x, y) == x.db = y.db /\ UBag(x.udb) = UBag(y.udb)
TrEq(x, y) == Len(x) = Len(y) /\ \A k \in DOMAIN x : SnapEq(x[k], y[k])
OutEq(x, y) ==
  /\ Len(x) = Len(y)
  /\ \A c \in Conns \cup {ABSENT} :
       LET xs == SelectSeq(x, LAMBDA f : f.to = c)
           ys == SelectSeq(y, LAMBDA f : f.to = c)
       IN /\ [k \in DOMAIN xs |-> xs[k].type] = [k \in DOMAIN ys |-> ys[k].type]
          /\ BagOfSeq(xs) = BagOfSeq(ys)

\* conformance of line k: the set of components that differ
Conf(k) ==
  LET ln == Trace[k]
      S == Pre(k)
      e == ln.e
      post == StateOf(ln)
  IN IF ~Enabled(S, e) THEN {"enabled"}
     \* a sweep that meets a mailbox whose age is exactly the expiration time: the
     \* properties leave that boundary open, and with fractional clock values the
     \* implementation's float comparison may fall either way -- not compared
     ELSE IF e.k \in {"Sweep", "Start", "CrashInSweep"} /\ \E m \in S.db.mb : S.now - m.updated = EXP THEN {}
     ELSE LET r == Step(S, e) IN
          (IF r.S.db = post.db THEN {} ELSE {"db"})
          \cup (IF UBag(r.S.udb) = UBag(post.udb) THEN {} ELSE {"udb"})
          \cup (IF OutEq(r.out, OutOf(ln.out)) THEN {} ELSE {"out"})
          \cup (IF r.err = ln.err THEN {} ELSE {"err"})
          \cup (IF TrEq(r.tr, TrOf(ln.tr)) THEN {} ELSE {"tr"})
          \cup (IF r.S.conn = post.conn THEN {} ELSE {"conn"})
          \cup (IF <<r.S.now, r.S.nextSweep, r.S.up, r.S.rebooted, r.S.gen>>
                   = <<post.now, post.nextSweep, post.up, post.rebooted, post.gen>>
                THEN {} ELSE {"clock"})

ObsOf(k) ==
  LET ln == Trace[k]  S == Pre(k) IN
  [e |-> ln.e, out |-> OutOf(ln.out), err |-> ln.err, tr |-> TrOf(ln.tr),
   db |-> S.db, udb |-> S.udb, now |-> S.now,
   db2 |-> DbOf(ln.db), udb2 |-> UdbOf(ln.udb), now2 |-> ln.now]

TInit == l = 1 /\ g = G0 /\ res = <<>> /\ cnt = [p \in PropIds |-> 0]

TNext ==
  /\ l <= Len(Trace)
  /\ LET ln == Trace[l]
         g0 == IF First(l) THEN G0 ELSE g
         o  == ObsOf(l)
         g2 == GNext(g0, o)
         cf == Conf(l)
         failed == {p \in PropIds : ~Holds(p, g0, o, g2)}
         sigs == Sigs(g0, o)
         r1 == IF cf = {} THEN res
               ELSE Append(res, [tid |-> ln.tid, i |-> ln.i, kind |-> "conf", what |-> cf,
                                sigs |-> sigs])
         r2 == IF failed = {} THEN r1
               ELSE Append(r1, [tid |-> ln.tid, i |-> ln.i, kind |-> "prop", what |-> failed,
                                sigs |-> sigs])
         dbg == IF "MBH_DEBUG" \in DOMAIN IOEnv /\ IOEnv.MBH_DEBUG = ToString(ln.tid) \o "," \o ToString(ln.i)
                THEN PrintT(<<"DEBUG ghost before", g0>>) /\ PrintT(<<"DEBUG obs", o>>)
                     /\ PrintT(<<"DEBUG ghost after", g2>>)
                ELSE TRUE
     IN /\ dbg
        /\ g' = g2
        /\ res' = r2
        /\ cnt' = [p \in PropIds |-> IF Ante(p, g0, o, g2) THEN cnt[p] + 1 ELSE cnt[p]]
        /\ l' = l + 1
        /\ (l = Len(Trace)) => JsonSerialize(OutFile, [lines |-> Len(Trace), res |-> r2, cnt |-> cnt'])

TSpec == TInit /\ [][TNext]_tvars
=============================================================================
