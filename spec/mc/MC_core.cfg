SPECIFICATION Spec
CONSTANTS
  Apps = {"a1"}
  AppOrder <- cAppOrder
  Sides = {"s1", "s2", "s3"}
  Conns = {"c1", "c2"}
  Class1 = {"1"}
  Class2 = {"10"}
  Class3 = {"100"}
  LongNames = {"1000"}
  OtherNames = {}
  ClientMbox = {"m1"}
  GenMbox <- cGen
  EXP = 11
  PERIOD = 5
  AllowList = TRUE
  UsageOn = FALSE
  Blur = 0
  Welcome = "w0"
  MsgIds = {"~"}
  AddMsgs <- cAddMsgs
  MoodSet = {"~"}
  CVs = {"~"}
  Malformed = FALSE
  AdvanceSteps = {1}
  MaxTime = 0
  MaxMsgs = 2
  MaxUsage = 0
  WithStop = FALSE
  WithCrash = FALSE
  WithCrashIn = FALSE
  WithFault = FALSE
  WithTime = FALSE
CONSTRAINT Constr
VIEW View
INVARIANT GhostAgrees
PROPERTY P01 P02 P03 P04 P05 P06frame P07 P08 P09 P10
CHECK_DEADLOCK FALSE
