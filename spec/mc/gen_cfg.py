#!/usr/bin/env python3
"""Generate TLC .cfg files for MBServer instances from a compact description."""
import sys, json
BASE = dict(
  Apps='{"a1"}', AppOrder='<- cAppOrder1', Sides='{"s1", "s2"}', Conns='{"c1", "c2"}',
  Class1='{"1"}', Class2='{"10"}', Class3='{"100"}', LongNames='{"1000"}', OtherNames='{}',
  ClientMbox='{"m1"}', GenMbox='<- cGen2', EXP='11', PERIOD='5', AllowList='TRUE',
  UsageOn='FALSE', Blur='0', Welcome='"w0"', MsgIds='{"~"}', AddMsgs='<- cAdd1',
  MoodSet='{"~"}', CVs='{"~"}', Malformed='FALSE', AdvanceSteps='{1}', MaxTime='0',
  MaxMsgs='1', MaxUsage='0', MaxDepth='100', WithStop='FALSE', WithCrash='FALSE', WithCrashIn='FALSE',
  WithFault='FALSE', WithTime='FALSE')
def gen(name, props, over, extra=()):
    c = dict(BASE); c.update(over)
    lines = ["SPECIFICATION Spec", "CONSTANTS"]
    for k, v in c.items():
        lines.append("  %s %s" % (k, v) if v.startswith("<-") else "  %s = %s" % (k, v))
    lines += ["CONSTRAINT Constr", "VIEW View", "CHECK_DEADLOCK FALSE"]
    lines += ["INVARIANT GhostAgrees"]
    for p in props: lines.append("PROPERTY %s" % p)
    lines += list(extra)
    open(name + ".cfg", "w").write("\n".join(lines) + "\n")
if __name__ == "__main__":
    spec = json.load(open(sys.argv[1]))
    for name, d in spec.items():
        gen(name, d["props"], d.get("over", {}), d.get("extra", ()))
