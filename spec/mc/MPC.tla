---- MODULE MPC ----
EXTENDS MBPairCfg
cAppOrder1 == <<"a1">>
cGen2 == <<"g1", "g2">>
cAdd1 == {[phase |-> "p1", body |-> "b1"]}
cClass1 == {ToString(i) : i \in 1..9}
cClass2 == {ToString(i) : i \in 10..99}
cClass3 == {ToString(i) : i \in 100..999}
====
