--------------------------------- MODULE MC ---------------------------------
EXTENDS MBServer
cAppOrder1 == <<"a1">>
cAppOrder2 == <<"a1", "a2">>
cGen1 == <<"g1">>
cGen2 == <<"g1", "g2">>
cGen3 == <<"g1", "g2", "g3">>
cClass1 == {ToString(i) : i \in 1..9}
cClass2 == {ToString(i) : i \in 10..99}
cClass3 == {ToString(i) : i \in 100..999}
cAdd1 == {[phase |-> "p1", body |-> "b1"]}
cAdd2 == {[phase |-> "p1", body |-> "b1"], [phase |-> "p2", body |-> "b2"]}
=============================================================================
