SPECIFICATION Spec
CONSTANTS
  Apps = {"a1"}
  AppOrder <- cAppOrder1
  Sides = {"s1","s2","s3"}
  Conns = {"c1", "c2"}
  Class1 = {"1"}
  Class2 = {"10"}
  Class3 = {"100"}
  LongNames = {"1000"}
  OtherNames = {}
  ClientMbox = {"m1"}
  GenMbox <- cGen2
  EXP = 11
  PERIOD = 5
  AllowList = TRUE
  UsageOn = FALSE
  Blur = 0
  Welcome = "w0"
  MsgIds = {"~"}
  AddMsgs <- cAdd1
  MoodSet = {"~"}
  CVs = {"~"}
  Malformed = FALSE
  AdvanceSteps = {1}
  MaxTime = 0
  MaxMsgs = 1
  MaxUsage = 0
  MaxDepth = 9
  WithStop = FALSE
  WithCrash = FALSE
  WithCrashIn = FALSE
  WithFault = FALSE
  WithTime = FALSE
CONSTRAINT Constr
VIEW View
CHECK_DEADLOCK FALSE
INVARIANT GhostAgrees
PROPERTY P01
PROPERTY P02
PROPERTY P03
PROPERTY P05
PROPERTY P07
PROPERTY P08
PROPERTY P09
PROPERTY P10
PROPERTY P17
PROPERTY P18
