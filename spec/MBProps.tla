------------------------------- MODULE MBProps -------------------------------
(***************************************************************************)
(* The listed properties C01..C18 as predicates over ONE OBSERVED STEP and *)
(* a ghost record that is itself maintained from observations only.        *)
(*                                                                         *)
(* An observed step  o  is the record                                      *)
(*    e      the event (Connect / Cmd / Drop / Advance / Sweep / Stop /    *)
(*           Crash / Start / CrashInCmd / CrashInSweep, with its message)  *)
(*    out    the frames the step sent, in order                            *)
(*    err    ABSENT, "crash", or the internal exception that escaped       *)
(*    tr     the durable states after each commit inside the step          *)
(*    db, udb, now      what an independent reader saw before the step     *)
(*    db2, udb2, now2   ... and after it                                   *)
(*                                                                         *)
(* Nothing here looks at the server's volatile state: the same predicates  *)
(* are checked by TLC on the model (MBServer.tla, PROPERTY [][..]_vars)    *)
(* and evaluated on traces recorded from the real code (Monitor.tla).      *)
(* The ghost  g  is the protocol-level book-keeping a careful client-side  *)
(* observer could do: which connection bound/claimed/opened what, which    *)
(* messages were accepted for which mailbox incarnation, who was told      *)
(* what, when each side arrived.                                           *)
(***************************************************************************)
EXTENDS MBCore

CONSTANT Stringified   \* tokens standing for the TEXT form of a value that was submitted as a JSON
                       \* number / boolean (only the trace harness produces them; {} in the model)

G0 == [gc      |-> [c \in Conns |-> Conn0],
       added   |-> <<>>,      \* accepted adds of live mailboxes [app,mbox,side,phase,body,id]
       seen    |-> {},        \* [app,mbox,side]: sides subscribed to / sent messages of
       told    |-> {},        \* [app,name,side]: sides told the mailbox of a nameplate
       used    |-> {},        \* mailbox ids ever attached to a nameplate
       arrNp   |-> {},        \* [app,name,side,added] first arrival of a side at a live nameplate
       arrMb   |-> {},        \* [app,mbox,side,added,mood,k] first arrival at a live mailbox
       lastOk  |-> {},        \* [app,mbox,t] last successful claim/allocate/open/add
       lastTry |-> {},        \* [app,mbox,t] last command addressed at it
       lastSub |-> {},        \* [app,mbox,t] last instant at which it was seen to have a subscriber
       crashed |-> FALSE,     \* some CrashIn* happened in this history
       up      |-> FALSE,
       refused |-> {},        \* connections that were sent a protocol error in their current life
       upSince |-> 0, idleSince |-> 0, lastSweep |-> 0, faulted |-> FALSE]

IsCmd(o)     == o.e.k = "Cmd"
ErrFrames(o) == SelectSeq(o.out, LAMBDA f : f.type = "error")
HasErrF(o)   == ErrFrames(o) # <<>>
ErrIs(o, x)  == \E k \in DOMAIN o.out : o.out[k].type = "error" /\ o.out[k].error = x
PErrOf(g, o) == ProtoErr(g.gc[o.e.c], o.e.m)
\* a command that passed the protocol checks and was carried out
Carried(g, o) == IsCmd(o) /\ o.err = ABSENT /\ PErrOf(g, o) = ABSENT
\* ... and was not refused either
Succeeded(g, o) == Carried(g, o) /\ ~HasErrF(o)
CmdIs(o, ty) == IsCmd(o) /\ o.e.m.type = ty
FramesTo(o, c, ty) == SelectSeq(o.out, LAMBDA f : f.to = c /\ f.type = ty)
MProj(f) == [side |-> f.side, phase |-> f.phase, body |-> f.body, id |-> f.id]
SeqMap(F(_), s) == [k \in DOMAIN s |-> F(s[k])]
HasMb(d, a, i) == MbRows(d, a, i) # {}
\* the mailbox a nameplate of app a points at (ABSENT if none)
MboxOfNp(d, a, n) == IF HasNp(d, a, n) THEN TheNp(d, a, n).mbox ELSE ABSENT
DurableAt(o, k) == IF k = 0 THEN Snap(o.db, o.udb) ELSE o.tr[k]
UBagOf(u) == [unp |-> BagOfSeq(u.unp), umb |-> BagOfSeq(u.umb), ucv |-> BagOfSeq(u.ucv), cur |-> u.cur]
Restarting(o) == o.e.k \in {"Stop", "Crash", "Start", "CrashInCmd", "CrashInSweep"}
SweepLike(o)  == o.e.k \in {"Sweep", "Start", "CrashInSweep"}

\* the mailbox (app, id) a command is addressed at, per the ghost
TargetApp(g, o) == g.gc[o.e.c].app
TargetMbox(g, o, d) ==
  LET m == o.e.m  cn == g.gc[o.e.c] IN
  CASE m.type = "open" -> m.mailbox
    [] m.type = "add" -> cn.mboxId
    [] m.type = "close" -> IF m.mailbox # ABSENT THEN m.mailbox ELSE cn.mboxId
    [] m.type = "claim" -> MboxOfNp(d, cn.app, m.nameplate)
    [] m.type = "release" ->
         MboxOfNp(d, cn.app, IF m.nameplate # ABSENT THEN m.nameplate ELSE cn.npId)
    [] OTHER -> ABSENT

Subscribers(g, a, i) == {x \in Conns : g.gc[x].held /\ g.gc[x].app = a /\ g.gc[x].mboxId = i}

(***************************************************************************)
(* Arrivals: when each side first came to a live nameplate / mailbox, and  *)
(* the mood it closed with -- kept from observed commands, not read from   *)
(* the database (they are what the usage records must be derived from).    *)
(* The *Step operators give the book-keeping after this step's own command *)
(* but before rows of deleted objects are forgotten.                       *)
(***************************************************************************)
NpNameOf(o) ==
  IF o.e.m.type = "claim" THEN o.e.m.nameplate
  ELSE IF IsCmd(o) /\ FramesTo(o, o.e.c, "allocated") # <<>>
       THEN FramesTo(o, o.e.c, "allocated")[1].nameplate ELSE ABSENT

ArrNpStep(g, o) ==
  LET c == o.e.c  m == o.e.m
      cn == IF IsCmd(o) THEN g.gc[c] ELSE Conn0
      a == cn.app  s == cn.side  n == NpNameOf(o) IN
  \* a side arrives at a nameplate when its claim/allocate was carried out
  \* and not refused as `reclaimed` (a crowded third side did arrive)
  IF IsCmd(o) /\ Carried(g, o) /\ m.type \in {"claim", "allocate"} /\ n # ABSENT
     /\ ~ErrIs(o, "reclaimed")
     /\ ~(\E x \in g.arrNp : x.app = a /\ x.name = n /\ x.side = s)
  THEN g.arrNp \cup {[app |-> a, name |-> n, side |-> s, added |-> o.now]}
  ELSE g.arrNp

ArrMbStep(g, o) ==
  LET c == o.e.c  m == o.e.m
      cn == IF IsCmd(o) THEN g.gc[c] ELSE Conn0
      a == cn.app  s == cn.side  n == NpNameOf(o)
      \* a side arrives at a mailbox with claim/allocate (the nameplate's
      \* mailbox), open, and the open-first of close
      i == CASE m.type \in {"claim", "allocate"} /\ n # ABSENT -> MboxOfNp(o.db2, a, n)
             [] m.type = "open" -> m.mailbox
             [] m.type = "close" -> IF m.mailbox # ABSENT THEN m.mailbox ELSE cn.mboxId
             [] OTHER -> ABSENT
      a1 == IF IsCmd(o) /\ Carried(g, o) /\ i # ABSENT /\ ~ErrIs(o, "reclaimed")
               /\ ~(\E x \in g.arrMb : x.app = a /\ x.mbox = i /\ x.side = s)
            THEN g.arrMb \cup {[app |-> a, mbox |-> i, side |-> s, added |-> o.now, mood |-> ABSENT,
                                k |-> Cardinality({x \in g.arrMb : x.app = a /\ x.mbox = i})]}
            ELSE g.arrMb
  IN IF IsCmd(o) /\ Succeeded(g, o) /\ m.type = "close"
     THEN {IF x.app = a /\ x.mbox = i /\ x.side = s THEN [x EXCEPT !.mood = m.mood] ELSE x
           : x \in a1}
     ELSE a1

(***************************************************************************)
(* Ghost update                                                            *)
(***************************************************************************)
GConn(gcn, m, o) ==
  IF o.err # ABSENT THEN Conn0
  ELSE IF ProtoErr(gcn, m) # ABSENT THEN gcn
  ELSE CASE m.type = "bind" -> [gcn EXCEPT !.bound = TRUE, !.app = m.appid, !.side = m.side]
         [] m.type = "allocate" -> [gcn EXCEPT !.didAllocate = TRUE]
         [] m.type = "claim" -> [gcn EXCEPT !.didClaim = TRUE, !.npId = m.nameplate]
         [] m.type = "release" -> [gcn EXCEPT !.didRelease = TRUE]
         [] m.type = "open" -> [gcn EXCEPT !.mboxId = m.mailbox, !.held = ~HasErrF(o),
                                           !.listening = ~HasErrF(o)]
         [] m.type = "close" -> IF HasErrF(o) THEN gcn
                                ELSE [gcn EXCEPT !.didClose = TRUE, !.held = FALSE,
                                                 !.listening = FALSE]
         [] OTHER -> gcn

GNext(g, o) ==
  LET e == o.e  c == e.c  m == e.m
      d2 == o.db2
      t == o.now
      cn == IF e.k \in {"Cmd", "Connect", "Drop"} THEN g.gc[c] ELSE Conn0
      a == cn.app  s == cn.side
      \* --- connections
      gc1 == CASE e.k = "Connect" -> [g.gc EXCEPT ![c] = [Conn0 EXCEPT !.up = TRUE]]
               [] e.k = "Drop" -> [g.gc EXCEPT ![c] = Conn0]
               [] e.k = "Cmd" -> [g.gc EXCEPT ![c] = GConn(cn, m, o)]
               [] Restarting(o) -> [x \in Conns |-> Conn0]
               [] OTHER -> g.gc
      \* a subscription ends when the mailbox is deleted
      gc2 == [x \in Conns |->
                IF gc1[x].held /\ ~HasMb(d2, gc1[x].app, gc1[x].mboxId)
                THEN [gc1[x] EXCEPT !.held = FALSE, !.listening = FALSE] ELSE gc1[x]]
      succ == Succeeded(g, o)
      \* --- accepted messages of live mailboxes
      add1 == IF succ /\ m.type = "add"
              THEN Append(g.added, [app |-> a, mbox |-> cn.mboxId, side |-> s,
                                    phase |-> m.phase, body |-> m.body, id |-> m.id])
              ELSE g.added
      added2 == SelectSeq(add1, LAMBDA x : HasMb(d2, x.app, x.mbox))
      \* --- who saw what
      newSeen == (IF succ /\ m.type = "open"
                  THEN {[app |-> a, mbox |-> m.mailbox, side |-> s]} ELSE {})
                 \cup {[app |-> g.gc[o.out[k].to].app, mbox |-> g.gc[o.out[k].to].mboxId,
                        side |-> g.gc[o.out[k].to].side]
                       : k \in {j \in DOMAIN o.out : o.out[j].type = "message"
                                                      /\ o.out[j].to \in Conns
                                                      /\ o.out[j].to # c}}
                 \cup (IF IsCmd(o) /\ FramesTo(o, c, "message") # <<>> /\ m.type \in {"open", "add"}
                       THEN {[app |-> a, side |-> s,
                              mbox |-> IF m.type = "open" THEN m.mailbox ELSE cn.mboxId]}
                       ELSE {})
      seen2 == {x \in g.seen \cup newSeen : HasMb(d2, x.app, x.mbox)}
      newTold == IF IsCmd(o) /\ FramesTo(o, c, "claimed") # <<>>
                 THEN {[app |-> a, name |-> m.nameplate, side |-> s]} ELSE {}
      told2 == {x \in g.told \cup newTold : HasNp(d2, x.app, x.name)}
      used2 == g.used \cup {r.mbox : r \in d2.np}
      \* --- arrivals (for the usage records)
      npName == NpNameOf(o)
      arrNp2 == {x \in ArrNpStep(g, o) : HasNp(d2, x.app, x.name)}
      arrMb2 == {x \in ArrMbStep(g, o) : HasMb(d2, x.app, x.mbox)}
      \* --- activity stamps
      tgt == IF IsCmd(o) /\ cn.bound THEN
               (IF m.type \in {"claim", "allocate"} /\ npName # ABSENT
                THEN MboxOfNp(d2, a, npName) ELSE TargetMbox(g, o, o.db))
             ELSE ABSENT
      Stamp(S, ok) == IF ok /\ tgt # ABSENT
                      THEN {x \in S : ~(x.app = a /\ x.mbox = tgt)}
                           \cup {[app |-> a, mbox |-> tgt, t |-> t]}
                      ELSE S
      lastOk2  == {x \in Stamp(g.lastOk, succ /\ m.type \in {"claim", "allocate", "open", "add"})
                   : HasMb(d2, x.app, x.mbox)}
      \* having a subscriber counts as activity (sweeps re-stamp such mailboxes):
      \* the idle clock of a mailbox starts when its last subscriber has left
      lastTry2 == {x \in {IF Subscribers(g, y.app, y.mbox) # {} /\ y.t < t THEN [y EXCEPT !.t = t] ELSE y
                           : y \in Stamp(g.lastTry, IsCmd(o))}
                   : HasMb(d2, x.app, x.mbox)}
      \* mailboxes that have a subscriber when this step begins: still subscribed at instant t
      subNow == {[app |-> g.gc[x].app, mbox |-> g.gc[x].mboxId, t |-> t] : x \in {y \in Conns : g.gc[y].held}}
      lastSub2 == {x \in {y \in g.lastSub : ~(\E z \in subNow : z.app = y.app /\ z.mbox = y.mbox)} \cup subNow
                   : HasMb(d2, x.app, x.mbox)}
      up2 == IF e.k = "Start" THEN TRUE ELSE IF Restarting(o) THEN FALSE ELSE g.up
  IN [gc |-> gc2, added |-> added2, seen |-> seen2, told |-> told2, used |-> used2,
      arrNp |-> arrNp2, arrMb |-> arrMb2, lastOk |-> lastOk2, lastTry |-> lastTry2, lastSub |-> lastSub2,
      crashed |-> g.crashed \/ e.k \in {"CrashInCmd", "CrashInSweep"},
      up |-> up2,
      upSince |-> IF e.k = "Start" THEN t ELSE g.upSince,
      idleSince |-> IF e.k \in {"Advance", "Sweep"} THEN g.idleSince ELSE t,
      lastSweep |-> IF e.k \in {"Sweep", "Start"} THEN t ELSE g.lastSweep,
      refused |-> IF Restarting(o) THEN {}
                  ELSE IF e.k \in {"Connect", "Drop"} \/ (e.k = "Cmd" /\ o.err # ABSENT) THEN g.refused \ {c}
                  ELSE IF e.k = "Cmd" /\ ProtoErr(g.gc[c], m) # ABSENT THEN g.refused \cup {c}
                  ELSE g.refused,
      faulted |-> g.faulted \/ (e.k = "Sweep" /\ e.fault)]

(***************************************************************************)
(* C01  open replays every stored message, and nothing else                *)
(***************************************************************************)
AddedOf(g, a, i) ==
  SeqMap(LAMBDA x : [side |-> x.side, phase |-> x.phase, body |-> x.body, id |-> x.id],
         SelectSeq(g.added, LAMBDA x : x.app = a /\ x.mbox = i))
StoredProj(d) ==
  BagOfSeq(SeqMap(LAMBDA x : [app |-> x.app, mbox |-> x.mbox, side |-> x.side,
                              phase |-> x.phase, body |-> x.body, id |-> x.id], d.msgs))

C01a(g, o, g2) ==
  (Succeeded(g, o) /\ CmdIs(o, "open")) =>
        BagOfSeq(SeqMap(MProj, FramesTo(o, o.e.c, "message")))
          = BagOfSeq(AddedOf(g, TargetApp(g, o), o.e.m.mailbox))
\* what is stored is exactly what was accepted and not yet discarded
C01b(g, o, g2) == StoredProj(o.db2) = BagOfSeq(g2.added)

(***************************************************************************)
(* C02  every add reaches every subscriber exactly once, nobody else       *)
(***************************************************************************)

MsgTo(o) == {o.out[k].to : k \in {j \in DOMAIN o.out : o.out[j].type = "message"}}
C02a(g, o, g2) ==
  LET c == o.e.c  cn == g.gc[c]  m == o.e.m IN
  (Succeeded(g, o) /\ CmdIs(o, "add")) =>
       \* (o.e.pick: a subscriber in its closing handshake, to which nothing can be sent any more)
       /\ MsgTo(o) = Subscribers(g, cn.app, cn.mboxId) \ {o.e.pick}
       /\ \A x \in MsgTo(o) :
            /\ Len(FramesTo(o, x, "message")) = 1
            /\ MProj(FramesTo(o, x, "message")[1])
                 = [side |-> cn.side, phase |-> m.phase, body |-> m.body, id |-> m.id]
\* message frames are sent by add (to subscribers) and open (to the opener) only
C02b(g, o, g2) ==
  ~(Succeeded(g, o) /\ CmdIs(o, "add")) =>
        MsgTo(o) \subseteq (IF Succeeded(g, o) /\ CmdIs(o, "open") THEN {o.e.c} ELSE {})

(***************************************************************************)
(* C03  one stable, unshared mailbox per nameplate incarnation             *)
(***************************************************************************)
\* every `claimed` names the mailbox the live nameplate points at
C03a(g, o, g2) ==
  LET c == o.e.c  cn == g.gc[c]  m == o.e.m
      cl == IF IsCmd(o) THEN FramesTo(o, c, "claimed") ELSE <<>>
  IN \A k \in DOMAIN cl : /\ CmdIs(o, "claim")
                          /\ cl[k].mailbox = MboxOfNp(o.db2, cn.app, m.nameplate)
\* ... which never changes while the nameplate lives
C03b(g, o, g2) ==
  \A r \in o.db.np : HasNp(o.db2, r.app, r.name) => TheNp(o.db2, r.app, r.name).mbox = r.mbox
\* a new incarnation gets an id never used for any nameplate before
C03c(g, o, g2) == \A r \in o.db2.np : ~HasNp(o.db, r.app, r.name) => r.mbox \notin g.used
\* live nameplates do not share a mailbox, and (app, name) is a key
C03d(g, o, g2) ==
  /\ \A r1, r2 \in o.db2.np : r1.mbox = r2.mbox => r1 = r2
  /\ \A r1, r2 \in o.db2.np : (r1.app = r2.app /\ r1.name = r2.name) => r1 = r2
  /\ o.db2.anom = {}

(***************************************************************************)
(* C04  allocate returns a free, shortest-available nameplate and holds it *)
(***************************************************************************)
Allocated(o) == IF IsCmd(o) THEN FramesTo(o, o.e.c, "allocated") ELSE <<>>
C04a(g, o, g2) ==   \* free, and of the shortest class that has a free value
  LET cn == g.gc[o.e.c]  al == Allocated(o) IN
  \A k \in DOMAIN al : /\ CmdIs(o, "allocate") /\ Len(al) = 1
                       /\ al[k].nameplate \notin AppNames(o.db, cn.app)
                       /\ al[k].nameplate \in AllocChoices(o.db, cn.app)
C04b(g, o, g2) ==   \* held by the allocating side when the answer is sent
  LET cn == g.gc[o.e.c]  al == Allocated(o) IN
  \A k \in DOMAIN al :
     \E r \in DurableAt(o, al[k].ci).db.nps :
        r.app = cn.app /\ r.name = al[k].nameplate /\ r.side = cn.side /\ r.claimed
\* an allocate that was carried out is answered
C04c(g, o, g2) ==
  (Succeeded(g, o) /\ CmdIs(o, "allocate")) => Len(Allocated(o)) = 1

(***************************************************************************)
(* C05  no third party                                                     *)
(***************************************************************************)
C05a(g, o, g2) ==
  \A x \in g2.seen : Cardinality({y.side : y \in {z \in g2.seen : z.app = x.app /\ z.mbox = x.mbox}}) <= 2
C05b(g, o, g2) ==
  \A x \in g2.told : Cardinality({y.side : y \in {z \in g2.told : z.app = x.app /\ z.name = x.name}}) <= 2
\* a refused third side leaves the stored messages alone
C05c(g, o, g2) == (IsCmd(o) /\ ErrIs(o, "crowded")) => o.db2.msgs = o.db.msgs
\* keep-access: one of the first two sides is never answered `crowded`
\* (violated by known finding F6)
FirstTwo(g, a, i) == {x.side : x \in {y \in g.arrMb : y.app = a /\ y.mbox = i /\ y.k < 2}}
C05keep(g, o, g2) ==
  LET cn == g.gc[o.e.c]  i == TargetMbox(g, o, o.db) IN
  (IsCmd(o) /\ ErrIs(o, "crowded") /\ i # ABSENT) => cn.side \notin FirstTwo(g, cn.app, i)

(***************************************************************************)
(* C06  single-run part: a command of one app touches no other app's rows  *)
(***************************************************************************)
AppDb(d, a) ==
  LET ids == {r.id : r \in {x \in d.mb : x.app = a}} IN
  [np |-> {r \in d.np : r.app = a}, nps |-> {r \in d.nps : r.app = a},
   mb |-> {r \in d.mb : r.app = a}, mbs |-> {r \in d.mbs : r.mbox \in ids},
   msgs |-> SelectSeq(d.msgs, LAMBDA x : x.app = a)]
AppUdb(u, a) ==
  [unp |-> BagOfSeq(SelectSeq(u.unp, LAMBDA x : x.app = a)),
   umb |-> BagOfSeq(SelectSeq(u.umb, LAMBDA x : x.app = a)),
   ucv |-> BagOfSeq(SelectSeq(u.ucv, LAMBDA x : x.app = a))]

C06frame(g, o, g2) ==
  (o.e.k \in {"Cmd", "Connect", "Drop", "CrashInCmd"}) =>
     LET mine == IF o.e.m.type = "bind" /\ ~g.gc[o.e.c].bound THEN o.e.m.appid
                 ELSE g.gc[o.e.c].app
     IN \A b \in Apps \ {mine} :
          AppDb(o.db2, b) = AppDb(o.db, b) /\ AppUdb(o.udb2, b) = AppUdb(o.udb, b)

\* a connection belongs to one app for its whole life: a bind on a bound connection is refused and
\* changes nothing (otherwise handles obtained under the first app would be used under the second)
C06bind(g, o, g2) ==
  (CmdIs(o, "bind") /\ g.gc[o.e.c].bound) =>
     HasErrF(o) /\ o.db2 = o.db /\ UBagOf(o.udb2) = UBagOf(o.udb) /\ o.err = ABSENT

(***************************************************************************)
(* C07  a nameplate lives exactly as long as someone holds it              *)
(***************************************************************************)
ClaimedIn(d, a, n, s) == \E r \in d.nps : r.app = a /\ r.name = n /\ r.side = s /\ r.claimed
Protected(g, o, a, i) ==   \* C12's antecedent
  \/ \E x \in g.lastOk : x.app = a /\ x.mbox = i /\ o.now - x.t < EXP
  \/ Subscribers(g, a, i) # {}
\* "a client may be away for the expiration time minus one sweep period" (C12.c): a channel that still
\* had a subscriber so recently has not been idle for the expiration time, so its expiry is not due
Away(g, o, a, i) ==
  ~g.faulted /\ EXP > PERIOD /\ \E x \in g.lastSub : x.app = a /\ x.mbox = i /\ o.now - x.t < EXP - PERIOD
RelName(g, o) == IF o.e.m.nameplate # ABSENT THEN o.e.m.nameplate ELSE g.gc[o.e.c].npId

\* (a) a claim is ended only by its side's release, by expiry, or by the
\*     deletion of the nameplate's mailbox through a close
C07a(g, o, g2) ==
  LET cn == IF o.e.k \in {"Cmd", "CrashInCmd"} THEN g.gc[o.e.c] ELSE Conn0
      m == o.e.m IN
  \A r \in o.db.nps : (r.claimed /\ ~ClaimedIn(o.db2, r.app, r.name, r.side)) =>
        \/ o.e.k \in {"Cmd", "CrashInCmd"} /\ m.type = "release" /\ PErrOf(g, o) = ABSENT
             /\ cn.app = r.app /\ cn.side = r.side /\ RelName(g, o) = r.name
        \/ SweepLike(o) /\ ~Protected(g, o, r.app, MboxOfNp(o.db, r.app, r.name))
                        /\ ~Away(g, o, r.app, MboxOfNp(o.db, r.app, r.name))
        \/ o.e.k \in {"Cmd", "CrashInCmd"} /\ m.type = "close" /\ PErrOf(g, o) = ABSENT
             /\ cn.app = r.app
             /\ TargetMbox(g, o, o.db) = MboxOfNp(o.db, r.app, r.name)
             /\ ~HasMb(o.db2, r.app, MboxOfNp(o.db, r.app, r.name))
\* (b) at rest the nameplate exists iff somebody holds it
C07b(g, o, g2) ==
  /\ ~g2.crashed => \A r \in o.db2.np : \E x \in o.db2.nps : x.app = r.app /\ x.name = r.name /\ x.claimed
  /\ \A x \in o.db2.nps : HasNp(o.db2, x.app, x.name)
\* (c) release is answered `released`; without a claim it changes nothing
C07c(g, o, g2) ==
  LET cn == g.gc[o.e.c] IN
  (Carried(g, o) /\ CmdIs(o, "release")) =>
        /\ Len(FramesTo(o, o.e.c, "released")) = 1 /\ ~HasErrF(o)
        /\ ~g.crashed => (~ClaimedIn(o.db, cn.app, RelName(g, o), cn.side) => o.db2 = o.db)
\* (d) no re-claim after release
C07d(g, o, g2) ==
  LET cn == g.gc[o.e.c] IN
  /\ (IsCmd(o) /\ ErrIs(o, "reclaimed")) => o.db2 = o.db
  /\ (Carried(g, o) /\ CmdIs(o, "claim")
        /\ \E r \in o.db.nps : r.app = cn.app /\ r.name = o.e.m.nameplate /\ r.side = cn.side /\ ~r.claimed)
       => ErrIs(o, "reclaimed")
\* (e) listed while it lives (when listing is allowed), gone after the last release
\*     (after a kill inside a release the nameplate may be left with no claim; the release that
\*      finishes the job is the one re-sent by a side the nameplate has a record of -- a release by
\*      somebody it never heard of changes nothing, and the leftover waits for the sweep)
C07e(g, o, g2) ==
  LET cn == g.gc[o.e.c] IN
  (Carried(g, o) /\ CmdIs(o, "release")
     /\ (~g.crashed \/ \E r \in o.db.nps : r.app = cn.app /\ r.name = RelName(g, o) /\ r.side = cn.side)
     /\ ~(\E r \in o.db2.nps : r.app = cn.app /\ r.name = RelName(g, o) /\ r.claimed))
    => RelName(g, o) \notin AppNames(o.db2, cn.app)

(***************************************************************************)
(* C08  a mailbox lives until its last open side closes; close completes   *)
(***************************************************************************)
Unrelated(d, a, i) ==    \* everything that has nothing to do with mailbox i
  LET nps == {r \in d.np : r.mbox = i} IN
  [np |-> d.np \ nps,
   nps |-> {r \in d.nps : ~(\E p \in nps : p.app = r.app /\ p.name = r.name)},
   mb |-> {r \in d.mb : r.id # i}, mbs |-> {r \in d.mbs : r.mbox # i},
   msgs |-> SelectSeq(d.msgs, LAMBDA x : x.mbox # i)]
CloseId(g, o) == IF o.e.m.mailbox # ABSENT THEN o.e.m.mailbox ELSE g.gc[o.e.c].mboxId
\* the antecedent: a close that passed the protocol checks, on a mailbox
\* with at most two sides (the closer included), not another app's id (F2)
C08ante(g, o) ==
  LET cn == g.gc[o.e.c]  i == CloseId(g, o)  rows == MbSides(o.db, i) IN
  /\ IsCmd(o) /\ PErrOf(g, o) = ABSENT /\ CmdIs(o, "close")     \* (an internal failure is a close that does not complete)
  /\ o.e.m.mood \notin BadMoods
  /\ Cardinality({r.side : r \in rows} \cup {cn.side}) <= 2
  /\ (MbAny(o.db, i) = {} \/ HasMb(o.db, cn.app, i))
C08a(g, o, g2) ==   \* close completes
  C08ante(g, o) => /\ o.err = ABSENT /\ ~HasErrF(o) /\ Len(FramesTo(o, o.e.c, "closed")) = 1
                   /\ o.out[Len(o.out)].type = "closed"
C08b(g, o, g2) ==   \* nothing unrelated is touched
  C08ante(g, o) => Unrelated(o.db2, g.gc[o.e.c].app, CloseId(g, o)) = Unrelated(o.db, g.gc[o.e.c].app, CloseId(g, o))
C08c(g, o, g2) ==   \* while another side is open everything of the mailbox stays
  LET c == o.e.c  cn == g.gc[c]  a == cn.app  i == CloseId(g, o)
      others == {r \in MbSides(o.db, i) : r.side # cn.side /\ r.opened} IN
  (C08ante(g, o) /\ others # {}) =>
       /\ HasMb(o.db2, a, i)
       /\ \A r \in MbSides(o.db2, i) : r.side = cn.side => ~r.opened     \* the closer's own side is recorded closed
       /\ \A r \in others : r \in o.db2.mbs
       /\ MsgsOf(o.db2, a, i) = MsgsOf(o.db, a, i)
       /\ {r \in o.db2.np : r.mbox = i} = {r \in o.db.np : r.mbox = i}
       /\ \A p \in {r \in o.db.np : r.mbox = i} : NpSides(o.db2, p.app, p.name) = NpSides(o.db, p.app, p.name)
       /\ \A x \in Conns \ {c} : g2.gc[x] = g.gc[x]
C08d(g, o, g2) ==   \* the last close deletes the mailbox and all that hangs off it
  LET cn == g.gc[o.e.c]  a == cn.app  i == CloseId(g, o)
      others == {r \in MbSides(o.db, i) : r.side # cn.side /\ r.opened} IN
  (C08ante(g, o) /\ others = {}) =>
       /\ ~HasMb(o.db2, a, i) /\ MbSides(o.db2, i) = {}
       /\ MsgsOf(o.db2, a, i) = <<>> /\ {r \in o.db2.np : r.mbox = i} = {}

\* one side's close never removes the other side's subscription: once a side of the mailbox has
\* closed, messages still reach exactly the connections that are subscribed (C02.a on such steps)
C08e(g, o, g2) ==
  LET cn == g.gc[o.e.c] IN
  (Succeeded(g, o) /\ CmdIs(o, "add") /\ \E r \in MbSides(o.db, cn.mboxId) : ~r.opened) => C02a(g, o, g2)

(***************************************************************************)
(* C09  a frame is sent only after its effects are committed               *)
(***************************************************************************)
C09a(g, o, g2) == \A k \in DOMAIN o.out : o.out[k].synced /\ o.out[k].ci <= Len(o.tr)
\* what a frame acknowledges is in the durable state reached when it was sent
C09b(g, o, g2) ==
  LET cn == IF o.e.k \in {"Cmd", "CrashInCmd"} THEN g.gc[o.e.c] ELSE Conn0
      m == o.e.m IN
  (o.e.k \in {"Cmd", "CrashInCmd"}) => \A k \in DOMAIN o.out :
       LET f == o.out[k]  d == DurableAt(o, f.ci).db IN
       CASE f.type = "allocated" -> ClaimedIn(d, cn.app, f.nameplate, cn.side)
         [] f.type = "claimed" -> ClaimedIn(d, cn.app, m.nameplate, cn.side)
                                  /\ MboxOfNp(d, cn.app, m.nameplate) = f.mailbox
         [] f.type = "released" -> ~ClaimedIn(d, cn.app, RelName(g, o), cn.side)
         [] f.type = "closed" ->
              ~(\E r \in d.mbs : r.mbox = CloseId(g, o) /\ r.side = cn.side /\ r.opened
                                  /\ HasMb(d, cn.app, r.mbox))
         [] f.type = "message" /\ m.type = "add" ->
              \E j \in DOMAIN d.msgs : d.msgs[j].app = cn.app /\ d.msgs[j].mbox = cn.mboxId
                                       /\ d.msgs[j].phase = f.phase /\ d.msgs[j].body = f.body
                                       /\ d.msgs[j].side = f.side /\ d.msgs[j].id = f.id
         [] OTHER -> TRUE

(***************************************************************************)
(* C10  (single-run part) every durable state is one the server can        *)
(*      restart from and serve on                                          *)
(***************************************************************************)
WellFormed(d) ==
  /\ d.anom = {}
  /\ \A x \in d.nps : HasNp(d, x.app, x.name)
  /\ \A x \in d.np : MbAny(d, x.mbox) # {}
  /\ \A x \in d.mbs : MbAny(d, x.mbox) # {}
  /\ \A r1, r2 \in d.mb : r1.id = r2.id => r1 = r2
  /\ \A r1, r2 \in d.np : (r1.app = r2.app /\ r1.name = r2.name) => r1 = r2
  /\ \A r1, r2 \in d.nps : (r1.app = r2.app /\ r1.name = r2.name /\ r1.side = r2.side) => r1 = r2
  /\ \A r1, r2 \in d.mbs : (r1.mbox = r2.mbox /\ r1.side = r2.side) => r1 = r2
C10a(g, o, g2) == WellFormed(o.db2) /\ \A k \in DOMAIN o.tr : WellFormed(o.tr[k].db)
C10b(g, o, g2) == (o.e.k = "Start") => o.err = ABSENT
\* after a crash nothing fails internally
C10c(g, o, g2) == (g.crashed /\ {o.e.m.mood, o.e.m.phase, o.e.m.body, o.e.m.id, o.e.m.cv} \cap BadMoods = {}) => o.err \in {ABSENT, "crash"}

(***************************************************************************)
(* C12  expiry never removes a channel that is active or has a subscriber  *)
(***************************************************************************)
Channel(d, a, i) ==
  LET nps == {r \in d.np : r.app = a /\ r.mbox = i} IN
  [mb |-> {[app |-> r.app, id |-> r.id, forNp |-> r.forNp] : r \in MbRows(d, a, i)},
   mbs |-> MbSides(d, i), msgs |-> MsgsOf(d, a, i), np |-> nps,
   nps |-> {r \in d.nps : \E p \in nps : p.app = r.app /\ p.name = r.name}]

C12a(g, o, g2) ==
  SweepLike(o) => \A r \in o.db.mb :
     Protected(g, o, r.app, r.id) => Channel(o.db2, r.app, r.id) = Channel(o.db, r.app, r.id)
\* "a client may be away for at least the expiration time minus one sweep period": a mailbox
\* that still had a subscriber less than EXP - PERIOD ago survives the sweep (sweeps re-stamp
\* subscribed mailboxes every PERIOD; not claimed for histories with a failed sweep)
C12c(g, o, g2) ==
  (SweepLike(o) /\ ~g.faulted /\ EXP > PERIOD) => \A r \in o.db.mb :
     (\E x \in g.lastSub : x.app = r.app /\ x.mbox = r.id /\ o.now - x.t < EXP - PERIOD)
        => Channel(o.db2, r.app, r.id) = Channel(o.db, r.app, r.id)

\* nothing but sweeps, closes and releases ever removes a channel's rows:
\* connecting, disconnecting, the passing of time and stopping the server
\* lose nothing (activity stamps apart)
Unstamped(d) == [d EXCEPT !.mb = {[r EXCEPT !.updated = 0] : r \in @}]
C12b(g, o, g2) ==
  (o.e.k \in {"Connect", "Drop", "Advance", "Stop", "Crash"}) => Unstamped(o.db2) = Unstamped(o.db)

(***************************************************************************)
(* C13  idle channels are swept completely; the store returns to empty     *)
(***************************************************************************)
Idle(g, o, a, i) ==
  /\ Subscribers(g, a, i) = {}
  /\ \E x \in g.lastTry : x.app = a /\ x.mbox = i /\ o.now - x.t > EXP
EmptyStore(d) == d.np = {} /\ d.nps = {} /\ d.mb = {} /\ d.mbs = {} /\ d.msgs = <<>>

\* (a) a completed sweep removes every idle mailbox with all that hangs off it
C13a(g, o, g2) ==
  (o.e.k \in {"Sweep", "Start"} /\ ~o.e.fault /\ o.err = ABSENT) =>
        \A r \in o.db.mb : Idle(g, o, r.app, r.id) =>
           Channel(o.db2, r.app, r.id) = Channel(EmptyDb, r.app, r.id)
\* (b) while the service is up, time never passes a sweep instant without a
\*     sweep -- also after a sweep that failed
C13b(g, o, g2) == /\ g2.up => o.now2 <= g2.lastSweep + PERIOD
                  /\ (o.e.k \in {"Sweep", "Start"}) => o.err = ABSENT
\* (c) quiescence: everybody gone for EXP + PERIOD => nothing is stored
NobodyThere(g) == \A c \in Conns : ~g.gc[c].up
C13c(g, o, g2) ==
  (g2.up /\ NobodyThere(g2) /\ o.now2 > g2.idleSince + EXP + PERIOD /\ g2.upSince <= g2.idleSince
        /\ o.e.k = "Sweep" /\ ~o.e.fault)
       => EmptyStore(o.db2)

(***************************************************************************)
(* C15 / C16  usage records                                                *)
(***************************************************************************)
NewRows(old, new) ==   \* bag difference new - old of two row sequences
  LET bo == BagOfSeq(old)  bn == BagOfSeq(new)
      cnt(b, r) == IF r \in DOMAIN b THEN b[r] ELSE 0
  IN [r \in {x \in DOMAIN bn : cnt(bn, x) > cnt(bo, x)} |-> cnt(bn, r) - cnt(bo, r)]
BagSum(F(_), S) ==      \* bag of F(x) for x in S
  LET vals == {F(x) : x \in S} IN
  [v \in vals |-> Cardinality({x \in S : F(x) = v})]

\* rows of np / mb that disappear somewhere along the durable states the
\* step passes through
Chain(o) == <<o.db>> \o [k \in DOMAIN o.tr |-> o.tr[k].db] \o <<o.db2>>
GoneNp(o) == LET ch == Chain(o) IN
  UNION {{r \in ch[k].np : ~HasNp(ch[k + 1], r.app, r.name)} : k \in 1..(Len(ch) - 1)}
GoneMb(o) == LET ch == Chain(o) IN
  UNION {{[app |-> r.app, id |-> r.id, forNp |-> r.forNp] : r \in {x \in ch[k].mb : ~HasMb(ch[k + 1], x.app, x.id)}}
         : k \in 1..(Len(ch) - 1)}
ArrOfNp(g, o, r) == {x \in ArrNpStep(g, o) : x.app = r.app /\ x.name = r.name}
ArrOfMb(g, o, r) == {x \in ArrMbStep(g, o) : x.app = r.app /\ x.mbox = r.id}

C15ante(g, o, g2) == UsageOn /\ ~g2.crashed /\ o.err = ABSENT
C15a(g, o, g2) ==   \* nameplate records: one per retirement, correctly derived
  C15ante(g, o, g2) =>
    LET RecNp(r) == SummNp(r.app, ArrOfNp(g, o, r), o.now, SweepLike(o)) IN
    /\ NewRows(o.udb.unp, o.udb2.unp) = BagSum(RecNp, GoneNp(o))
    /\ Len(o.udb2.unp) = Len(o.udb.unp) + Cardinality(GoneNp(o))
C15b(g, o, g2) ==   \* mailbox records
  C15ante(g, o, g2) =>
    LET RecMb(r) == SummMb(r.app, r.forNp, ArrOfMb(g, o, r), o.now, SweepLike(o)) IN
    /\ NewRows(o.udb.umb, o.udb2.umb) = BagSum(RecMb, GoneMb(o))
    /\ Len(o.udb2.umb) = Len(o.udb.umb) + Cardinality(GoneMb(o))
C15c(g, o, g2) ==   \* the status row counts the subscribed connections
  (C15ante(g, o, g2) /\ o.e.k \in {"Sweep", "Start"}) =>
       /\ Len(o.udb2.cur) = 1
       /\ o.udb2.cur[1].conns = Cardinality({x \in Conns : g2.gc[x].held})

InBlur(started, t) == started % Blur = 0 /\ started <= t /\ t < started + Blur
\* After a kill inside a command the arrivals the observer knows (answered commands) are not all the
\* arrivals the store knows, and a record may be written by the step that dies before the row it
\* describes is gone: there the clause keeps what does not depend on them -- a whole number of
\* intervals, not in the future.
BlurOnly(started, t) == started % Blur = 0 /\ started <= t
C16a(g, o, g2) ==
  (UsageOn /\ Blur > 0) =>
    \A x \in DOMAIN NewRows(o.udb.unp, o.udb2.unp) :
       IF g2.crashed THEN BlurOnly(x.started, o.now)
       ELSE \E r \in GoneNp(o) : r.app = x.app /\ ArrOfNp(g, o, r) # {}
                                  /\ InBlur(x.started, FirstTime(ArrOfNp(g, o, r)))
C16b(g, o, g2) ==
  (UsageOn /\ Blur > 0) =>
    \A x \in DOMAIN NewRows(o.udb.umb, o.udb2.umb) :
       IF g2.crashed THEN BlurOnly(x.started, o.now)
       ELSE \E r \in GoneMb(o) : r.app = x.app
              /\ InBlur(x.started, IF ArrOfMb(g, o, r) = {} THEN o.now ELSE FirstTime(ArrOfMb(g, o, r)))
C16c(g, o, g2) ==
  (UsageOn /\ Blur > 0) =>
    \A x \in DOMAIN NewRows(o.udb.ucv, o.udb2.ucv) : InBlur(x.t, o.now)

(***************************************************************************)
(* C17  protocol discipline                                                *)
(***************************************************************************)
FrameTypes == {"welcome", "ack", "pong", "nameplates", "allocated", "claimed",
               "released", "message", "closed", "error"}
C17a(g, o, g2) ==   \* welcome first, with the configured notices
  (o.e.k = "Connect") =>
     Len(o.out) = 1 /\ o.out[1].to = o.e.c /\ o.out[1].type = "welcome" /\ o.out[1].w = Welcome
C17b(g, o, g2) ==   \* ack first, echoing the id; no ack without a type
  IsCmd(o) =>
    LET mine == SelectSeq(o.out, LAMBDA f : f.to = o.e.c) IN
    IF o.e.m.type = ABSENT THEN FramesTo(o, o.e.c, "ack") = <<>>
    ELSE /\ mine # <<>> /\ mine[1].type = "ack" /\ mine[1].id = o.e.m.id
         /\ Len(FramesTo(o, o.e.c, "ack")) = 1
C17c(g, o, g2) ==   \* every frame is well formed: a known type, a send timestamp
  \A k \in DOMAIN o.out : o.out[k].type \in FrameTypes
C17d(g, o, g2) ==   \* ping -> pong, bound or not
  (IsCmd(o) /\ o.e.m.type = "ping" /\ o.e.m.ping # ABSENT) =>
     /\ Len(FramesTo(o, o.e.c, "pong")) = 1 /\ FramesTo(o, o.e.c, "pong")[1].pong = o.e.m.ping
     /\ ~HasErrF(o)
C17e(g, o, g2) ==   \* a malformed / out-of-order command: one error, no effect
  (IsCmd(o) /\ PErrOf(g, o) # ABSENT) =>
     /\ Len(ErrFrames(o)) = 1 /\ ErrFrames(o)[1].to = o.e.c
     /\ Len(o.out) = (IF o.e.m.type = ABSENT THEN 1 ELSE 2)
     /\ o.db2 = o.db /\ UBagOf(o.udb2) = UBagOf(o.udb) /\ o.tr = <<>>
     /\ o.err = ABSENT
C17f(g, o, g2) ==   \* no handler fails internally (known finding F2 apart); values SQLite cannot
                    \* bind are not "well-formed commands with string-valued fields"
  (o.e.k \in {"Cmd", "Connect", "Drop"} /\ {o.e.m.mood, o.e.m.phase, o.e.m.body, o.e.m.id, o.e.m.cv} \cap BadMoods = {}) => o.err = ABSENT

(***************************************************************************)
(* C18  (single-run part) list answers with exactly the live nameplates    *)
(***************************************************************************)
C18a(g, o, g2) ==
  (Carried(g, o) /\ CmdIs(o, "list")) =>
     LET fs == FramesTo(o, o.e.c, "nameplates") IN
     /\ Len(fs) = 1
     /\ fs[1].names = (IF AllowList THEN AppNames(o.db, g.gc[o.e.c].app) ELSE {})
     /\ o.db2 = o.db

\* C17 (g): a refused command leaves the connection usable -- every later step
\* that involves a connection which was sent a protocol error is answered and
\* delivered as if the bad command had not been sent
InvolvedConns(g, o) ==
  {o.e.c} \cup MsgTo(o)
  \cup (IF o.e.m.type = "add" /\ g.gc[o.e.c].held THEN Subscribers(g, g.gc[o.e.c].app, g.gc[o.e.c].mboxId) ELSE {})
C17g(g, o, g2) ==
  (IsCmd(o) /\ InvolvedConns(g, o) \cap g.refused # {}) =>
     /\ C01a(g, o, g2) /\ C02a(g, o, g2) /\ C02b(g, o, g2) /\ C03a(g, o, g2) /\ C04c(g, o, g2)
     /\ C07c(g, o, g2) /\ C07d(g, o, g2) /\ C08a(g, o, g2) /\ C18a(g, o, g2)

(***************************************************************************)
(* Known findings: signatures precise enough that any other violation of   *)
(* the same clause is still reported.                                      *)
(***************************************************************************)
\* F2: mailboxes.id is a global primary key: open/close of an id that lives
\*     under another app raises IntegrityError
F2sig(g, o) ==
  /\ IsCmd(o) /\ o.err = "IntegrityError" /\ o.e.m.type \in {"open", "close"}
  /\ PErrOf(g, o) = ABSENT
  /\ LET i == IF o.e.m.type = "open" THEN o.e.m.mailbox ELSE CloseId(g, o) IN
     \E r \in o.db.mb : r.id = i /\ r.app # g.gc[o.e.c].app
\* F6: once a third side tried, every open_mailbox on that mailbox is refused
\*     as crowded -- also for the first two sides
F6sig(g, o) ==
  LET cn == g.gc[o.e.c]  i == TargetMbox(g, o, o.db) IN
  /\ IsCmd(o) /\ ErrIs(o, "crowded") /\ i # ABSENT
  /\ cn.side \in FirstTwo(g, cn.app, i)
  /\ Cardinality(MbSides(o.db, i)) > 2

ClauseIds == <<"C01.a", "C01.b", "C02.a", "C02.b", "C03.a", "C03.b", "C03.c", "C03.d",
               "C04.a", "C04.b", "C04.c", "C05.a", "C05.b", "C05.c", "C05.keep", "C06.frame", "C06.bind",
               "C07.a", "C07.b", "C07.c", "C07.d", "C07.e", "C08.a", "C08.b", "C08.c", "C08.d", "C08.e",
               "C09.a", "C09.b", "C10.a", "C10.b", "C10.c", "C12.a", "C12.b", "C12.c",
               "C13.a", "C13.b", "C13.c", "C15.a", "C15.b", "C15.c", "C16.a", "C16.b", "C16.c",
               "C17.a", "C17.b", "C17.c", "C17.d", "C17.e", "C17.f", "C17.g", "C18.a">>

Holds(p, g, o, g2) ==
  CASE p = "C01.a" -> C01a(g, o, g2) [] p = "C01.b" -> C01b(g, o, g2)
    [] p = "C02.a" -> C02a(g, o, g2) [] p = "C02.b" -> C02b(g, o, g2)
    [] p = "C03.a" -> C03a(g, o, g2) [] p = "C03.b" -> C03b(g, o, g2)
    [] p = "C03.c" -> C03c(g, o, g2) [] p = "C03.d" -> C03d(g, o, g2)
    [] p = "C04.a" -> C04a(g, o, g2) [] p = "C04.b" -> C04b(g, o, g2) [] p = "C04.c" -> C04c(g, o, g2)
    [] p = "C05.a" -> C05a(g, o, g2) [] p = "C05.b" -> C05b(g, o, g2)
    [] p = "C05.c" -> C05c(g, o, g2) [] p = "C05.keep" -> C05keep(g, o, g2)
    [] p = "C06.frame" -> C06frame(g, o, g2) [] p = "C06.bind" -> C06bind(g, o, g2)
    [] p = "C07.a" -> C07a(g, o, g2) [] p = "C07.b" -> C07b(g, o, g2) [] p = "C07.c" -> C07c(g, o, g2)
    [] p = "C07.d" -> C07d(g, o, g2) [] p = "C07.e" -> C07e(g, o, g2)
    [] p = "C08.a" -> C08a(g, o, g2) [] p = "C08.b" -> C08b(g, o, g2)
    [] p = "C08.c" -> C08c(g, o, g2) [] p = "C08.d" -> C08d(g, o, g2) [] p = "C08.e" -> C08e(g, o, g2)
    [] p = "C09.a" -> C09a(g, o, g2) [] p = "C09.b" -> C09b(g, o, g2)
    [] p = "C10.a" -> C10a(g, o, g2) [] p = "C10.b" -> C10b(g, o, g2) [] p = "C10.c" -> C10c(g, o, g2)
    [] p = "C12.a" -> C12a(g, o, g2) [] p = "C12.b" -> C12b(g, o, g2) [] p = "C12.c" -> C12c(g, o, g2)
    [] p = "C13.a" -> C13a(g, o, g2) [] p = "C13.b" -> C13b(g, o, g2) [] p = "C13.c" -> C13c(g, o, g2)
    [] p = "C15.a" -> C15a(g, o, g2) [] p = "C15.b" -> C15b(g, o, g2) [] p = "C15.c" -> C15c(g, o, g2)
    [] p = "C16.a" -> C16a(g, o, g2) [] p = "C16.b" -> C16b(g, o, g2) [] p = "C16.c" -> C16c(g, o, g2)
    [] p = "C17.a" -> C17a(g, o, g2) [] p = "C17.b" -> C17b(g, o, g2) [] p = "C17.c" -> C17c(g, o, g2)
    [] p = "C17.d" -> C17d(g, o, g2) [] p = "C17.e" -> C17e(g, o, g2) [] p = "C17.f" -> C17f(g, o, g2)
    [] p = "C17.g" -> C17g(g, o, g2)
    [] p = "C18.a" -> C18a(g, o, g2)

\* F10: phase / body / id of a message are TEXT columns: a value submitted as a JSON
\*      number or boolean is delivered live as submitted but replayed by `open` as a string
F10sig(g, o) ==
  /\ CmdIs(o, "open")
  /\ \E k \in DOMAIN o.out : o.out[k].type = "message"
                              /\ {o.out[k].phase, o.out[k].body, o.out[k].id} \cap Stringified # {}

\* which known-finding signatures the step matches
Sigs(g, o) == (IF F2sig(g, o) THEN {"F2"} ELSE {}) \cup (IF F6sig(g, o) THEN {"F6"} ELSE {})
              \cup (IF F10sig(g, o) THEN {"F10"} ELSE {})

(***************************************************************************)
(* Vacuity guard: is the antecedent of a clause true on this step?  The    *)
(* trace checker counts these per clause, so that the evidence shows how   *)
(* often each clause was really exercised.                                 *)
(***************************************************************************)
Ante(p, g, o, g2) ==
  LET cn == IF o.e.k \in {"Cmd", "CrashInCmd"} THEN g.gc[o.e.c] ELSE Conn0 IN
  CASE p = "C01.a" -> Succeeded(g, o) /\ CmdIs(o, "open") /\ AddedOf(g, cn.app, o.e.m.mailbox) # <<>>
    [] p = "C02.a" -> Succeeded(g, o) /\ CmdIs(o, "add") /\ Cardinality(Subscribers(g, cn.app, cn.mboxId)) >= 2
    [] p = "C02.b" -> MsgTo(o) # {}
    [] p = "C03.a" -> IsCmd(o) /\ FramesTo(o, o.e.c, "claimed") # <<>>
    [] p = "C03.b" -> \E r \in o.db.np : HasNp(o.db2, r.app, r.name)
    [] p = "C03.c" -> \E r \in o.db2.np : ~HasNp(o.db, r.app, r.name)
    [] p \in {"C04.a", "C04.b"} -> Allocated(o) # <<>>
    [] p \in {"C05.a", "C05.b", "C05.c", "C05.keep"} -> IsCmd(o) /\ ErrIs(o, "crowded")
    [] p = "C06.frame" -> o.e.k \in {"Cmd", "CrashInCmd"} /\ \E r \in o.db.mb : r.app # cn.app
    [] p = "C06.bind" -> CmdIs(o, "bind") /\ g.gc[o.e.c].bound
    [] p = "C07.a" -> \E r \in o.db.nps : r.claimed /\ ~ClaimedIn(o.db2, r.app, r.name, r.side)
    [] p \in {"C07.c", "C07.e"} -> Carried(g, o) /\ CmdIs(o, "release")
    [] p = "C07.d" -> IsCmd(o) /\ ErrIs(o, "reclaimed")
    [] p \in {"C08.a", "C08.b"} -> C08ante(g, o)
    [] p = "C08.c" -> C08ante(g, o) /\ \E r \in MbSides(o.db, CloseId(g, o)) : r.side # cn.side /\ r.opened
    [] p = "C08.d" -> C08ante(g, o) /\ HasMb(o.db, cn.app, CloseId(g, o))
    [] p = "C08.e" -> (Succeeded(g, o) /\ CmdIs(o, "add") /\ (\E r \in MbSides(o.db, cn.mboxId) : ~r.opened))
                      /\ ~(\E r \in MbSides(o.db, CloseId(g, o)) : r.side # cn.side /\ r.opened)
    [] p = "C09.a" -> o.out # <<>>
    [] p = "C09.b" -> \E k \in DOMAIN o.out : o.out[k].type \in {"allocated", "claimed", "released", "closed", "message"}
    [] p = "C10.a" -> o.tr # <<>>
    [] p = "C10.b" -> o.e.k = "Start" /\ g.crashed
    [] p = "C10.c" -> g.crashed /\ o.e.k \in {"Cmd", "Sweep", "Start"}
    [] p = "C12.a" -> SweepLike(o) /\ \E r \in o.db.mb : Protected(g, o, r.app, r.id)
    [] p = "C12.c" -> SweepLike(o) /\ ~g.faulted /\ \E r \in o.db.mb : Subscribers(g, r.app, r.id) = {} /\
                        \E x \in g.lastSub : x.app = r.app /\ x.mbox = r.id /\ o.now - x.t < EXP - PERIOD
    [] p = "C13.a" -> o.e.k \in {"Sweep", "Start"} /\ ~o.e.fault /\ \E r \in o.db.mb : Idle(g, o, r.app, r.id)
    [] p = "C13.b" -> o.e.k = "Sweep" /\ g.faulted
    [] p = "C13.c" -> g2.up /\ NobodyThere(g2) /\ o.now2 > g2.idleSince + EXP + PERIOD /\ g2.upSince <= g2.idleSince /\ o.e.k = "Sweep" /\ ~o.e.fault
    [] p = "C15.a" -> C15ante(g, o, g2) /\ GoneNp(o) # {}
    [] p = "C15.b" -> C15ante(g, o, g2) /\ GoneMb(o) # {}
    [] p = "C15.c" -> C15ante(g, o, g2) /\ o.e.k = "Sweep" /\ \E x \in Conns : g2.gc[x].held
    [] p = "C16.a" -> UsageOn /\ Blur > 0 /\ Len(o.udb2.unp) > Len(o.udb.unp)
    [] p = "C16.b" -> UsageOn /\ Blur > 0 /\ Len(o.udb2.umb) > Len(o.udb.umb)
    [] p = "C16.c" -> UsageOn /\ Blur > 0 /\ Len(o.udb2.ucv) > Len(o.udb.ucv)
    [] p = "C17.a" -> o.e.k = "Connect"
    [] p = "C17.b" -> IsCmd(o) /\ o.e.m.id # ABSENT
    [] p = "C17.d" -> IsCmd(o) /\ o.e.m.type = "ping" /\ o.e.m.ping # ABSENT
    [] p = "C17.e" -> IsCmd(o) /\ PErrOf(g, o) # ABSENT
    [] p = "C17.g" -> IsCmd(o) /\ InvolvedConns(g, o) \cap g.refused # {}
    [] p = "C18.a" -> Carried(g, o) /\ CmdIs(o, "list")
    [] OTHER -> TRUE

\* the clauses of each listed property ("C05" without the keep-access clause,
\* which is known finding F6 and is checked separately)
PropClauses ==
  [C01 |-> {"C01.a", "C01.b"}, C02 |-> {"C02.a", "C02.b"},
   C03 |-> {"C03.a", "C03.b", "C03.c", "C03.d"}, C04 |-> {"C04.a", "C04.b", "C04.c"},
   C05 |-> {"C05.a", "C05.b", "C05.c"}, C05keep |-> {"C05.keep"}, C06 |-> {"C06.frame", "C06.bind"},
   C07 |-> {"C07.a", "C07.b", "C07.c", "C07.d", "C07.e"},
   C08 |-> {"C08.a", "C08.b", "C08.c", "C08.d", "C08.e"}, C09 |-> {"C09.a", "C09.b"},
   C10 |-> {"C10.a", "C10.b", "C10.c"}, C12 |-> {"C12.a", "C12.b", "C12.c"},
   C13 |-> {"C13.a", "C13.b", "C13.c"}, C15 |-> {"C15.a", "C15.b", "C15.c"},
   C16 |-> {"C16.a", "C16.b", "C16.c"},
   C17 |-> {"C17.a", "C17.b", "C17.c", "C17.d", "C17.e", "C17.f", "C17.g"}, C18 |-> {"C18.a"}]
PropHolds(pid, g, o, g2) == \A p \in PropClauses[pid] : Holds(p, g, o, g2)
=============================================================================
