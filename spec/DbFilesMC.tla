----------------------------- MODULE DbFilesMC -----------------------------
EXTENDS DbFiles

(***************************************************************************)
(* The state machine for model checking: up to MaxRuns runs, each of which *)
(* may be killed after any of its durable changes.                         *)
(***************************************************************************)
CONSTANTS InitialContents, Entries, MaxRuns
VARIABLES dir, first, nruns, last   \* last: the last observed run

fvars == <<dir, first, nruns, last>>

FInit == /\ \E c \in InitialContents : dir = Dir(c, {}, Absent) /\ first = c
         /\ nruns = 0
         /\ last = [entry |-> "none", pre |-> Dir(Absent, {}, Absent), post |-> Dir(Absent, {}, Absent), result |-> "none"]

FNext ==
  /\ nruns < MaxRuns
  /\ \E e \in Entries :
       LET run == Run(e, dir) IN
       \E k \in 0..Len(run.states) :
          /\ dir' = After(e, dir, k)
          /\ last' = [entry |-> e, pre |-> dir, post |-> After(e, dir, k),
                      result |-> IF k = Len(run.states) THEN run.result ELSE "crashed"]
          /\ nruns' = nruns + 1
          /\ first' = first

FSpec == FInit /\ [][FNext]_fvars

H == [first |-> first]
FileInv == last.entry = "none" \/ \A k \in DOMAIN FileClauses : FHolds(FileClauses[k], H, last)
\* a completed run always tells: completing is always possible (no livelock
\* of crashes is needed to state this: it is C19.b / C20.b on completed runs)
=============================================================================
