------------------------------ MODULE Classify ------------------------------
(***************************************************************************)
(* The usage classification and the blur arithmetic as total operators,    *)
(* checked against the real AppNamespace._summarize_mailbox /              *)
(* _summarize_nameplate_usage / log_client_version over their whole finite *)
(* input domain (C15 rule clause, C16 arithmetic):                         *)
(*   number of sides 0..4 x the set of reported moods (happy, lonely,      *)
(*   errory, scary, an unknown one, the empty string, none) x pruned,      *)
(*   arrival times in any order, every blur interval of the sample.        *)
(* The harness calls the real functions and writes one line per case; this *)
(* module recomputes each record with MBCore!SummMb / SummNp and also      *)
(* states the documented precedence directly (DocMb, DocNp), so that the    *)
(* transcription itself is checked against the documentation.              *)
(***************************************************************************)
EXTENDS Integers, Sequences, FiniteSets, TLC, Json, IOUtils

Lines == ndJsonDeserialize(IOEnv.MBH_TRACE)
VARIABLES cl, cres
cv == <<cl, cres>>
RangeOf(s) == {s[i] : i \in DOMAIN s}

\* MBCore with the blur interval of the line: the summaries only depend on Blur
Core(b) == INSTANCE MBCore WITH Apps <- {"a"}, AppOrder <- <<"a">>, Sides <- {}, Conns <- {}, Class1 <- {}, Class2 <- {},
             Class3 <- {}, LongNames <- {}, OtherNames <- {}, ClientMbox <- {}, GenMbox <- <<>>, EXP <- 11, PERIOD <- 5,
             AllowList <- TRUE, UsageOn <- TRUE, Blur <- b, Welcome <- "w0", BadMoods <- {}

\* the documented precedence, stated directly
DocMb(n, moods, pruned) ==
  IF n > 2 THEN "crowded" ELSE IF pruned THEN "pruney"
  ELSE IF "scary" \in moods THEN "scary" ELSE IF "errory" \in moods THEN "errory"
  ELSE IF "lonely" \in moods THEN "lonely"
  ELSE IF n = 0 THEN "quiet" ELSE IF n = 1 THEN "lonely" ELSE "happy"
DocNp(n, pruned) == IF n > 2 THEN "crowded" ELSE IF pruned THEN "pruney" ELSE IF n = 2 THEN "happy" ELSE "lonely"

\* rows: the side rows handed to the real function (distinct sides)
Bad(ln) ==
  LET rows == RangeOf(ln.rows)
      n == Cardinality(rows) IN
  IF ln.kind = "mailbox" THEN
     LET m == Core(ln.blur)!SummMb("a", ln.forNp, rows, ln.when, ln.pruned)
         moods == {r.mood : r \in rows} IN
     (IF m.result = ln.got.result THEN {} ELSE {"C15.rule"})
     \cup (IF m.result = DocMb(n, moods, ln.pruned) THEN {} ELSE {"C15.doc"})
     \cup (IF <<m.waiting, m.total>> = <<ln.got.waiting, ln.got.total>> THEN {} ELSE {"C15.times"})
     \cup (IF m.started = ln.got.started THEN {} ELSE {"C16.mailbox"})
  ELSE IF ln.kind = "nameplate" THEN
     LET m == Core(ln.blur)!SummNp("a", rows, ln.when, ln.pruned) IN
     (IF m.result = ln.got.result /\ m.result = DocNp(n, ln.pruned) THEN {} ELSE {"C15.rule"})
     \cup (IF <<m.waiting, m.total>> = <<ln.got.waiting, ln.got.total>> THEN {} ELSE {"C15.times"})
     \cup (IF m.started = ln.got.started THEN {} ELSE {"C16.nameplate"})
  ELSE \* "bind": the connect time of a client-version record
     (IF Core(ln.blur)!Blurred(ln.when) = ln.got.started THEN {} ELSE {"C16.bind"})
     \cup (IF ln.blur > 0 /\ ~(ln.got.started % ln.blur = 0 /\ ln.got.started <= ln.when /\ ln.when < ln.got.started + ln.blur)
           THEN {"C16.window"} ELSE {})

CInit == cl = 1 /\ cres = <<>>
CNext ==
  /\ cl <= Len(Lines)
  /\ LET b == Bad(Lines[cl])
         r2 == IF b = {} THEN cres ELSE Append(cres, [n |-> Lines[cl].n, what |-> b])
     IN /\ cres' = r2 /\ cl' = cl + 1
        /\ (cl = Len(Lines)) => JsonSerialize(IOEnv.MBH_OUT, [lines |-> Len(Lines), res |-> r2])
CSpec == CInit /\ [][CNext]_cv
=============================================================================
