------------------------------- MODULE MBPair -------------------------------
(***************************************************************************)
(* Lock-step self-composition of the specification for the relational      *)
(* properties.  Two copies L and R of the system state (MBCore) take the   *)
(* same inputs, except for the inputs the property declares irrelevant,    *)
(* which only L takes:                                                     *)
(*                                                                         *)
(*   iso      C06  L: all commands; R: only those of connections of app B  *)
(*                 (and of connections bound to no app); sweeps, clock,    *)
(*                 restarts shared.  Invariant: B's rows, B's usage        *)
(*                 records, B's connection flags and the frames of every   *)
(*                 shared step are equal.                                  *)
(*   restart  C11  at any point L is stopped and started again, R merely   *)
(*                 loses its connections and sweeps at the same instant.   *)
(*                 Invariant: equal databases, flags and frames afterwards *)
(*   resend   C14  after a successfully answered claim/release/open/close  *)
(*                 L also processes the same command on a spare connection *)
(*                 of the same side.  Invariant: the duplicate is answered *)
(*                 like the original and the channel databases stay equal. *)
(*                                                                         *)
(* Random outcomes (fresh mailbox ids, allocate's pick) are inputs and are *)
(* shared.  Behaviours are cut at the first step that matches a known      *)
(* finding's signature (F2 for iso, F6 for resend).                        *)
(***************************************************************************)
EXTENDS MBProps

CONSTANTS Regime,      \* "iso" | "restart" | "resend"
          AppB,        \* the app whose view must not depend on the others (iso)
          Spare,       \* the connection slot used for the duplicate (resend)
          MsgIds, AddMsgs, MoodSet, ClaimNames, PickSet, AdvanceSteps,
          MaxTime, MaxMsgs, MaxDepth

VARIABLES L, R,        \* the two system states
          ok,          \* the last step's frames / answers agreed
          cut,         \* a known-finding signature was passed: stop comparing
          gL           \* ghost of L (for the signatures)

pvars == <<L, R, ok, cut, gL>>

M(ty) == [Msg0 EXCEPT !.type = ty]
Msgs(S) ==
  UNION {
    {[M("bind") EXCEPT !.appid = a, !.side = s] : a \in Apps, s \in Sides},
    {M("list"), M("allocate")},
    {[M("claim") EXCEPT !.nameplate = n] : n \in ClaimNames},
    {[M("release") EXCEPT !.nameplate = n] : n \in ClaimNames \cup {ABSENT}},
    {[M("open") EXCEPT !.mailbox = i] : i \in KnownMbox(S)},
    {[M("add") EXCEPT !.phase = x.phase, !.body = x.body] : x \in AddMsgs},
    {[M("close") EXCEPT !.mailbox = i, !.mood = md] : i \in KnownMbox(S) \cup {ABSENT}, md \in MoodSet}
  }

CmdEv(S, c, m) ==
  {[Ev0 EXCEPT !.k = "Cmd", !.c = c, !.m = m,
               !.gid = IF NeedsGen(S, c, m) THEN NextGen(S) ELSE ABSENT, !.pick = p]
   : p \in (IF NeedsPick(S, c, m) THEN AllocChoices(S.db, S.conn[c].app) \cap PickSet ELSE {ABSENT})}

Users == Conns \ {Spare}
Events(S) ==
  LET E(k) == [Ev0 EXCEPT !.k = k] IN
  UNION {
    {[E("Connect") EXCEPT !.c = c] : c \in Users},
    {[E("Drop") EXCEPT !.c = c] : c \in Users},
    UNION {CmdEv(S, c, m) : c \in {x \in Users : S.conn[x].up}, m \in Msgs(S)},
    {[E("Advance") EXCEPT !.d = d] : d \in AdvanceSteps}, {E("Sweep")}, {E("Start")}, {E("Stop")}
  }

\* does the event belong to an app other than B (iso)?
Foreign(S, e) ==
  /\ e.k \in {"Cmd", "Drop"}
  /\ \/ S.conn[e.c].bound /\ S.conn[e.c].app # AppB
     \/ e.k = "Cmd" /\ ~S.conn[e.c].bound /\ e.m.type = "bind" /\ e.m.appid # AppB
\* a Connect is shared: an unbound connection belongs to nobody.  (A foreign
\* bind leaves R's copy of the connection unbound; its later commands are
\* L-only and R's copy is dropped when L's is.)

ObsOfL(e, r) == [e |-> e, out |-> r.out, err |-> r.err, tr |-> r.tr,
                 db |-> L.db, udb |-> L.udb, now |-> L.now,
                 db2 |-> r.S.db, udb2 |-> r.S.udb, now2 |-> r.S.now]

PInit == /\ L = InitState /\ R = InitState /\ ok = TRUE /\ cut = FALSE /\ gL = G0

Both(e) ==
  LET rl == Step(L, e)
      rr == Step0(R, e)     \* same event, same generated id
      o == ObsOfL(e, rl) IN
  /\ Enabled(L, e)
  /\ L' = rl.S
  /\ R' = [rr.S EXCEPT !.gen = rl.S.gen]
  /\ ok' = (rl.out = rr.out /\ rl.err = rr.err)
  /\ cut' = (cut \/ Sigs(gL, o) # {})
  /\ gL' = GNext(gL, o)

LeftOnly(e) ==
  LET rl == Step(L, e)  o == ObsOfL(e, rl) IN
  /\ Enabled(L, e)
  /\ L' = rl.S
  \* R's copy of a connection that went to another app disappears with it
  /\ R' = IF e.k = "Drop" THEN [R EXCEPT !.conn[e.c] = Conn0, !.gen = rl.S.gen]
          ELSE [R EXCEPT !.gen = rl.S.gen]
  /\ ok' = TRUE
  /\ cut' = (cut \/ Sigs(gL, o) # {})
  /\ gL' = GNext(gL, o)

IsoNext == \E e \in Events(L) : IF Foreign(L, e) THEN LeftOnly(e) ELSE Both(e)

\* restart: L stops and starts; R loses its connections and sweeps now
RestartBoth ==
  LET l1 == Step(L, [Ev0 EXCEPT !.k = "Stop"]).S
      l2 == Step(l1, [Ev0 EXCEPT !.k = "Start"])
      r1 == [R EXCEPT !.conn = NoConns]
      r2 == Sweep(r1, FALSE)
      o == ObsOfL([Ev0 EXCEPT !.k = "Start"], l2) IN
  /\ L.up
  /\ L' = l2.S
  /\ R' = [r2.S EXCEPT !.rebooted = l2.S.rebooted, !.gen = l2.S.gen]
  /\ ok' = TRUE /\ cut' = cut
  /\ gL' = GNext(GNext(gL, ObsOfL([Ev0 EXCEPT !.k = "Stop"], Step(L, [Ev0 EXCEPT !.k = "Stop"]))), o)
RestartNext == RestartBoth \/ \E e \in Events(L) : e.k # "Stop" /\ Both(e)

\* resend: after a successful claim/release/open/close, L processes it again
\* on the spare connection of the same side
Answer(out, c) == SelectSeq(out, LAMBDA f : f.to = c /\ f.type # "ack")
Anon(s) == [k \in DOMAIN s |-> [s[k] EXCEPT !.to = "-", !.ci = 0]]
ResendAfter(e) ==
  LET rl == Step(L, e)
      rr == Step0(R, e)
      cn == rl.S.conn[e.c]
      m0 == e.m
      m == [m0 EXCEPT !.nameplate = IF m0.type = "release" /\ @ = ABSENT THEN cn.npId ELSE @,
                      !.mailbox = IF m0.type = "close" /\ @ = ABSENT THEN L.conn[e.c].mboxId ELSE @]
      s1 == Step0(rl.S, [Ev0 EXCEPT !.k = "Connect", !.c = Spare]).S
      s2 == Step0(s1, [Ev0 EXCEPT !.k = "Cmd", !.c = Spare,
                                  !.m = [M("bind") EXCEPT !.appid = L.conn[e.c].app, !.side = L.conn[e.c].side]]).S
      d3 == Step0(s2, [Ev0 EXCEPT !.k = "Cmd", !.c = Spare, !.m = m])
      s4 == Step0(d3.S, [Ev0 EXCEPT !.k = "Drop", !.c = Spare]).S
      good == e.k = "Cmd" /\ m0.type \in {"claim", "release", "open", "close"} /\ L.conn[e.c].bound
              /\ rl.err = ABSENT /\ ~(\E k \in DOMAIN rl.out : rl.out[k].type = "error")
              /\ (m.type = "release" => m.nameplate # ABSENT) /\ (m.type = "close" => m.mailbox # ABSENT)
      od == [e |-> [Ev0 EXCEPT !.k = "Cmd", !.c = Spare, !.m = m], out |-> d3.out, err |-> d3.err, tr |-> d3.tr,
             db |-> s2.db, udb |-> s2.udb, now |-> s2.now, db2 |-> d3.S.db, udb2 |-> d3.S.udb, now2 |-> d3.S.now]
      gd == GNext(GNext(GNext(gL, ObsOfL(e, rl)),
                        [ObsOfL(e, rl) EXCEPT !.e = [Ev0 EXCEPT !.k = "Connect", !.c = Spare], !.out = <<>>, !.tr = <<>>,
                                              !.db = rl.S.db, !.udb = rl.S.udb]),
                  [ObsOfL(e, rl) EXCEPT !.e = [Ev0 EXCEPT !.k = "Cmd", !.c = Spare,
                                                         !.m = [M("bind") EXCEPT !.appid = L.conn[e.c].app, !.side = L.conn[e.c].side]],
                                        !.out = <<>>, !.tr = <<>>, !.db = rl.S.db, !.udb = rl.S.udb, !.udb2 = s2.udb])
  IN
  /\ Enabled(L, e) /\ good
  /\ L' = [s4 EXCEPT !.udb = rl.S.udb]        \* usage rows of the extra bind are not channel state
  /\ R' = [rr.S EXCEPT !.gen = s4.gen]
  /\ ok' = (Anon(Answer(d3.out, Spare)) = Anon(Answer(rl.out, e.c)) /\ d3.err = ABSENT)
  /\ cut' = (cut \/ Sigs(gd, od) # {} \/ Sigs(gL, ObsOfL(e, rl)) # {})
  /\ gL' = GNext(gL, ObsOfL(e, rl))
ResendNext == (\E e \in Events(L) : Both(e)) \/ (\E e \in Events(L) : ResendAfter(e))

PNext == CASE Regime = "iso" -> IsoNext [] Regime = "restart" -> RestartNext [] Regime = "resend" -> ResendNext
PSpec == PInit /\ [][PNext]_pvars

(***************************************************************************)
(* what must be equal                                                      *)
(***************************************************************************)
ChanEq(a, b) == a.np = b.np /\ a.nps = b.nps /\ a.mb = b.mb /\ a.mbs = b.mbs /\ a.msgs = b.msgs
IsoInv ==
  cut \/ /\ ok
         /\ AppDb(L.db, AppB) = AppDb(R.db, AppB)
         /\ AppUdb(L.udb, AppB) = AppUdb(R.udb, AppB)
         /\ \A c \in Conns : (L.conn[c].bound /\ L.conn[c].app = AppB) => R.conn[c] = L.conn[c]
RestartInv ==
  cut \/ /\ ok /\ ChanEq(L.db, R.db) /\ L.conn = R.conn /\ L.now = R.now /\ L.nextSweep = R.nextSweep
         /\ UBagOf([L.udb EXCEPT !.cur = <<>>]) = UBagOf([R.udb EXCEPT !.cur = <<>>])
ResendInv ==
  cut \/ /\ ok /\ ChanEq(L.db, R.db)
         /\ \A c \in Users : L.conn[c] = R.conn[c]
PairInv == CASE Regime = "iso" -> IsoInv [] Regime = "restart" -> RestartInv [] Regime = "resend" -> ResendInv

PConstr == /\ L.now <= MaxTime /\ Len(L.db.msgs) <= MaxMsgs /\ TLCGet("level") <= MaxDepth /\ ~cut
PView == <<L, R, cut>>
=============================================================================
