------------------------------ MODULE DbFiles ------------------------------
(***************************************************************************)
(* File-level life cycle of database.py: _get_db (create_or_upgrade_xx),   *)
(* the create-only and open-only entry points, first-time creation by      *)
(* temp file + rename, and the usage v1 -> v2 upgrade, with a crash after  *)
(* every externally visible step.  (Properties C19, C20.)                  *)
(*                                                                         *)
(* A directory is  [main, temps, backup]:  the content at the database     *)
(* path, the bag of temp files next to it, the content of the backup file. *)
(* A content is a record                                                   *)
(*    [t |-> "absent"]                                                     *)
(*    [t |-> "junk",  sha]      not an SQLite database (random bytes, a    *)
(*                              truncated database, ...); "empty" for the  *)
(*                              zero-length file                           *)
(*    [t |-> "db", schema, ver, data, sha]                                 *)
(*         schema  "full:<v>" (exactly the objects of the version-v        *)
(*                 script), "part:<k>" (the first k statements of the      *)
(*                 creation script), or "other"                            *)
(*         ver     the rows of the version table (a sequence)              *)
(*         data    token standing for all rows of all other tables         *)
(*         sha     token standing for the bytes ("new:.." when the model   *)
(*                 rewrites the file)                                      *)
(***************************************************************************)
EXTENDS Integers, Sequences, FiniteSets, TLC

CONSTANTS Kind,        \* "channel" or "usage"
          Target,      \* schema version the code creates / upgrades to
          NCreate,     \* number of SQL statements in the creation script
          HasUpgrader, \* versions v for which upgrade-<kind>-to-v<v+1>.sql exists... as a set of source versions
          AtomicUpgrade  \* TRUE once the upgrade script is one transaction

Absent == [t |-> "absent"]
IsDb(c) == c.t = "db"
Full(v) == "full:" \o ToString(v)
Part(k) == "part:" \o ToString(k)
NewDb(schema, ver, data) == [t |-> "db", schema |-> schema, ver |-> ver, data |-> data, sha |-> "new"]
Fresh == NewDb(Full(Target), <<Target>>, "nodata")

Dir(main, temps, backup) == [main |-> main, temps |-> temps, backup |-> backup]

\* the durable directory states first-time creation passes through, in
\* order (the last one is the completed creation)
CreateStates(d) ==
  LET withTemp(c) == Dir(d.main, d.temps \cup {c}, d.backup) IN
    <<withTemp([t |-> "junk", sha |-> "empty"])>>                       \* mkstemp
    \o [k \in 1..NCreate |->                                           \* each CREATE, autocommitted
          withTemp(NewDb(IF k = NCreate THEN Full(Target) ELSE Part(k), <<>>, "nodata"))]
    \o <<withTemp(Fresh)>>                                              \* INSERT version + commit
    \o <<Dir(Fresh, d.temps, d.backup)>>                                \* rename

\* opening what is at the path: the outcome of _open_db_connection and of
\* SELECT version
\* (DBError for junk, a raw OperationalError for the empty file or a missing
\* version table, TypeError for an empty version table: all "error" here)
OpenResult(c) ==
  IF c.t = "junk" THEN "error"
  ELSE IF c.schema = "noversion" \/ c.ver = <<>> THEN "error"
  ELSE "ok"

\* the states and the result of the upgrade loop on an open database
UpgradeStates(d) ==
  LET c == d.main
      v == c.ver[1]
  IN IF v = Target THEN [states |-> <<>>, result |-> "ok"]
     ELSE IF v > Target THEN [states |-> <<>>, result |-> "error"]
     ELSE LET d0 == Dir(c, d.temps, [t |-> "junk", sha |-> "new"])   \* the copy half written
              d1 == Dir(c, d.temps, c)      \* shutil.copy(dbfile, backup) complete
          IN IF v \notin HasUpgrader
             THEN [states |-> <<d0, d1>>, result |-> "error"]
             ELSE \* usage v1 -> v2: three CREATEs, DELETE version, INSERT version
                  LET done == Dir(NewDb(Full(v + 1), <<v + 1>>, c.data), d.temps, c)
                      mid(k) == Dir(NewDb(IF k >= 4 THEN Full(v + 1) ELSE "upg:" \o ToString(k),
                                          IF k >= 4 THEN <<>> ELSE c.ver, c.data), d.temps, c)
                  IN IF AtomicUpgrade
                     THEN [states |-> <<d0, d1, done>>, result |-> "ok"]
                     ELSE [states |-> <<d0, d1>> \o [k \in 1..4 |-> mid(k)] \o <<done>>, result |-> "ok"]

\* a run of an entry point: the durable states it passes through and its result
Run(entry, d) ==
  CASE entry = "get" ->
         IF d.main = Absent
         THEN LET cs == CreateStates(d)
                  up == UpgradeStates(cs[Len(cs)])
              IN [states |-> cs \o up.states, result |-> up.result]
         ELSE IF OpenResult(d.main) # "ok" THEN [states |-> <<>>, result |-> OpenResult(d.main)]
         ELSE UpgradeStates(d)
    [] entry = "create" ->
         IF d.main # Absent THEN [states |-> <<>>, result |-> "DBAlreadyExists"]
         ELSE [states |-> CreateStates(d), result |-> "ok"]
    [] entry = "open" ->
         IF d.main = Absent THEN [states |-> <<>>, result |-> "DBDoesntExist"]
         ELSE IF d.main.t = "junk" /\ d.main.sha # "empty" THEN [states |-> <<>>, result |-> "error"]
         ELSE [states |-> <<>>, result |-> "ok"]

\* the directory after the run was killed following its k-th durable change
\* (k = 0: before the first); k = Len(states): the run completed
After(entry, d, k) == IF k = 0 THEN d ELSE Run(entry, d).states[k]

(***************************************************************************)
(* Properties, over one observed run  r = [entry, pre, post, result]       *)
(* (result "crashed" for a killed run) and the history h of the directory  *)
(* (h.first = content at the path when the first run started).             *)
(***************************************************************************)
Complete(c) == IsDb(c) /\ c.schema = Full(Target) /\ c.ver = <<Target>>

\* C19 (a): a path that held no database holds nothing or a complete database
C19a(h, r) == (h.first = Absent) => (r.post.main = Absent \/ Complete(r.post.main))
\* C19 (b): after any crash of a first-time creation the next start succeeds
C19b(h, r) == (h.first = Absent /\ r.result # "crashed" /\ r.entry = "get") => r.result = "ok" /\ Complete(r.post.main)
\* C19 (c): a current-version database keeps its contents
C19c(h, r) == (IsDb(r.pre.main) /\ r.pre.main.ver = <<Target>> /\ r.entry \in {"get", "open"})
                => (r.post.main = r.pre.main /\ r.result \in {"ok", "crashed"})
\* C19 (d): not a database / newer version: error, byte-for-byte unchanged
C19d(h, r) == ((r.pre.main.t = "junk" \/ (IsDb(r.pre.main) /\ r.pre.main.ver # <<>> /\ r.pre.main.ver[1] > Target))
               /\ r.entry = "get")
                => (r.post.main = r.pre.main /\ r.result \notin {"ok"})
\* C19 (e): create-only refuses an existing file; open-only never creates
C19e(h, r) == /\ (r.entry = "create" /\ r.pre.main # Absent) => (r.result = "DBAlreadyExists" /\ r.post = r.pre)
              /\ (r.entry = "open" /\ r.pre.main = Absent) => (r.result = "DBDoesntExist" /\ r.post = r.pre)

\* C20, for a history that started on an older-version database with data R
Older(c) == IsDb(c) /\ c.ver # <<>> /\ c.ver[1] < Target /\ c.ver[1] \in HasUpgrader
C20a(h, r) == Older(h.first) => (IsDb(r.post.main) /\ r.post.main.data = h.first.data)      \* no record lost
C20b(h, r) == (Older(h.first) /\ r.entry = "get" /\ r.result # "crashed")                    \* retry completes
                => (r.result = "ok" /\ Complete(r.post.main) /\ r.post.main.data = h.first.data)
C20c(h, r) == (Older(h.first) /\ r.post.main # h.first) => r.post.backup = h.first           \* backup first

FileClauses == <<"C19.a", "C19.b", "C19.c", "C19.d", "C19.e", "C20.a", "C20.b", "C20.c">>
FHolds(p, h, r) ==
  CASE p = "C19.a" -> C19a(h, r) [] p = "C19.b" -> C19b(h, r) [] p = "C19.c" -> C19c(h, r)
    [] p = "C19.d" -> C19d(h, r) [] p = "C19.e" -> C19e(h, r)
    [] p = "C20.a" -> C20a(h, r) [] p = "C20.b" -> C20b(h, r) [] p = "C20.c" -> C20c(h, r)

=============================================================================
