------------------------------ MODULE TracePair ------------------------------
(***************************************************************************)
(* Relational properties on PAIRS of recorded executions of the real code. *)
(* The harness runs one generated history twice, under the two regimes the *)
(* property compares, aligns the two executions by shared input index and  *)
(* projects each side to what the property says must be equal (the rows    *)
(* and frames in scope, server-generated ids renamed in order of first     *)
(* appearance).  Each line carries both projections; this module states    *)
(* the equalities:                                                         *)
(*   iso     C06  app B's clients and rows: history H  vs  H without the   *)
(*                other apps' commands                                     *)
(*   restart C11  server rebuilt from the files  vs  server object kept    *)
(*   resend  C14  history with an acknowledged command duplicated on a     *)
(*                fresh connection  vs  the original history               *)
(*   config  C18  listing / usage / blur options  vs  the defaults         *)
(*   resume  C10  crash inside a command, restart, re-send  vs  no crash   *)
(***************************************************************************)
EXTENDS Integers, Sequences, FiniteSets, TLC, Json, IOUtils

Lines == ndJsonDeserialize(IOEnv.MBH_TRACE)
VARIABLES pl, pres
pv == <<pl, pres>>

RangeOf(s) == {s[i] : i \in DOMAIN s}
BagOf(s) == [r \in RangeOf(s) |-> Cardinality({i \in DOMAIN s : s[i] = r})]
Tos(s) == {s[i].to : i \in DOMAIN s}

\* same frames to every connection, in the same order of types; frames of
\* equal type (replayed messages with equal receive time) compared as a bag
FramesEq(x, y) ==
  /\ Len(x) = Len(y)
  /\ \A c \in Tos(x) \cup Tos(y) :
       LET xs == SelectSeq(x, LAMBDA f : f.to = c)
           ys == SelectSeq(y, LAMBDA f : f.to = c)
       IN /\ [k \in DOMAIN xs |-> xs[k].type] = [k \in DOMAIN ys |-> ys[k].type]
          /\ BagOf(xs) = BagOf(ys)

DbEq(a, b) ==
  /\ RangeOf(a.np) = RangeOf(b.np) /\ RangeOf(a.nps) = RangeOf(b.nps)
  /\ RangeOf(a.mb) = RangeOf(b.mb) /\ RangeOf(a.mbs) = RangeOf(b.mbs)
  /\ BagOf(a.msgs) = BagOf(b.msgs) /\ Len(a.np) = Len(b.np) /\ Len(a.mb) = Len(b.mb)
  /\ Len(a.nps) = Len(b.nps) /\ Len(a.mbs) = Len(b.mbs)
  /\ RangeOf(a.anom) = RangeOf(b.anom)
UdbEq(a, b) == a.unp = b.unp /\ a.umb = b.umb /\ a.ucv = b.ucv /\ a.cur = b.cur

\* which components differ (empty = the pair agrees at this index)
Diff(ln) ==
  IF ln.what = "executable" THEN {"executable"}
  ELSE (IF FramesEq(ln.L.out, ln.R.out) THEN {} ELSE {"frames"})
       \cup (IF ln.L.err = ln.R.err THEN {} ELSE {"err"})
       \cup (IF DbEq(ln.L.db, ln.R.db) THEN {} ELSE {"db"})
       \cup (IF UdbEq(ln.L.udb, ln.R.udb) THEN {} ELSE {"udb"})
       \* the candidates a random choice (allocate) was made from
       \cup (IF ln.L.cands = ln.R.cands THEN {} ELSE {"candidates"})

PInit == pl = 1 /\ pres = <<>>
PNext ==
  /\ pl <= Len(Lines)
  /\ LET ln == Lines[pl]
         d == Diff(ln)
         r2 == IF d = {} THEN pres
               ELSE Append(pres, [pid |-> ln.pid, x |-> ln.x, li |-> ln.li, regime |-> ln.regime,
                                  what |-> ln.what, diff |-> d])
     IN /\ pres' = r2 /\ pl' = pl + 1
        /\ (pl = Len(Lines)) => JsonSerialize(IOEnv.MBH_OUT, [lines |-> Len(Lines), res |-> r2])
PSpec == PInit /\ [][PNext]_pv
=============================================================================
