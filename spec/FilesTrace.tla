----------------------------- MODULE FilesTrace -----------------------------
(***************************************************************************)
(* Judges recorded runs of the database.py entry points (each possibly     *)
(* killed at some step) against DbFiles: conformance -- the directory a    *)
(* run leaves must be one of the durable states DbFiles!Run passes through *)
(* (the final one, with the same result, for a completed run) -- and the   *)
(* C19 / C20 clauses.                                                      *)
(***************************************************************************)
EXTENDS DbFiles, Json, IOUtils

Lines == ndJsonDeserialize(IOEnv.MBH_TRACE)
VARIABLES fl, fres
ftv == <<fl, fres>>

RangeOf(s) == {s[i] : i \in DOMAIN s}
ContentOf(j) == IF j.t = "db" THEN [t |-> "db", schema |-> j.schema, ver |-> j.ver, data |-> j.data, sha |-> j.sha]
                ELSE IF j.t = "junk" THEN [t |-> "junk", sha |-> j.sha] ELSE Absent
DirOf(j) == Dir(ContentOf(j.main), {ContentOf(x) : x \in RangeOf(j.temps)}, ContentOf(j.backup))

\* the model rewrites files with sha "new"; what it leaves untouched keeps its sha
Conforms(ln) ==
  LET pre == DirOf(ln.pre)  post == DirOf(ln.post)
      run == Run(ln.entry, pre) IN
  IF ln.result = "crashed"
  THEN \E k \in 0..Len(run.states) : After(ln.entry, pre, k) = post
  ELSE /\ run.result = ln.result
       /\ After(ln.entry, pre, Len(run.states)) = post

FTInit == fl = 1 /\ fres = <<>>
FTNext ==
  /\ fl <= Len(Lines)
  /\ LET ln == Lines[fl]
         r == [entry |-> ln.entry, pre |-> DirOf(ln.pre), post |-> DirOf(ln.post), result |-> ln.result]
         h == [first |-> ContentOf(ln.first)]
         failed == {FileClauses[k] : k \in {j \in DOMAIN FileClauses : ~FHolds(FileClauses[j], h, r)}}
         r1 == IF Conforms(ln) THEN fres ELSE Append(fres, [sid |-> ln.sid, i |-> ln.i, kind |-> "conf", what |-> {"dir"}])
         r2 == IF failed = {} THEN r1 ELSE Append(r1, [sid |-> ln.sid, i |-> ln.i, kind |-> "prop", what |-> failed])
     IN /\ fres' = r2 /\ fl' = fl + 1
        /\ (fl = Len(Lines)) => JsonSerialize(IOEnv.MBH_OUT, [lines |-> Len(Lines), res |-> r2])
FTSpec == FTInit /\ [][FTNext]_ftv
=============================================================================
