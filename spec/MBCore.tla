------------------------------- MODULE MBCore -------------------------------
(***************************************************************************)
(* Functional core of the mailbox-server specification.                    *)
(*                                                                         *)
(* Everything here is a pure operator on records: the two databases as     *)
(* sets/sequences of rows, one operator per SQL commit segment of          *)
(* server.py, the per-connection protocol machine of server_websocket.py   *)
(* (every check in code order), the expiry sweep of server_tap.expire()    *)
(* and service stop / crash / start.  `Step(S, e)` maps a system state and *)
(* an event to the successor state, the frames sent, the internal error    *)
(* (if any) and the sequence of durable states the step passes through     *)
(* (one per commit() that changed a file -- the crash points).             *)
(*                                                                         *)
(* The same operators are used by                                          *)
(*   MBServer.tla   (model checking: Next == \E e : Step)                  *)
(*   Trace.tla      (conformance: the logged event must reproduce the      *)
(*                   logged post-state)                                    *)
(*   MBPair.tla     (self-composition for the relational properties)       *)
(***************************************************************************)
EXTENDS Integers, Sequences, FiniteSets, TLC

CONSTANTS
  Apps,          \* application ids (strings)
  AppOrder,      \* sequence: Apps in the order Python's sorted() gives them
  Sides,         \* side strings
  Conns,         \* connection slots
  Class1, Class2, Class3,  \* numeric nameplates of 1, 2, 3 digits
  LongNames,     \* numeric nameplates of 4..6 digits
  OtherNames,    \* non-numeric nameplates
  ClientMbox,    \* mailbox ids chosen by clients
  GenMbox,       \* sequence of ids the server generates (fresh, in order)
  EXP, PERIOD,   \* channel expiration time, sweep period (same unit as now)
  AllowList,     \* listing allowed?
  UsageOn,       \* usage database configured?
  Blur,          \* blur interval, 0 = none
  Welcome,       \* token describing the configured welcome notices
  BadMoods       \* mood / phase / body / id values SQLite cannot bind (JSON arrays / objects; as `client_version`: not a pair): outside the input domain of the
                 \* properties, but the harness sends them to provoke a failure in the middle of a close

ABSENT == "~"      \* a missing message field / SQL NULL string / Python None
NULLT  == -1       \* SQL NULL in a numeric column

Names   == Class1 \cup Class2 \cup Class3 \cup LongNames \cup OtherNames
Range(s) == {s[i] : i \in DOMAIN s}
GenSet  == Range(GenMbox)
MboxIds == ClientMbox \cup GenSet

MinOf(X) == CHOOSE x \in X : \A y \in X : x <= y
BagOfSeq(s) == [r \in Range(s) |-> Cardinality({i \in DOMAIN s : s[i] = r})]
Blurred(x) == IF Blur > 0 THEN Blur * (x \div Blur) ELSE x

(***************************************************************************)
(* Databases                                                               *)
(*   channel: np   rows [app, name, mbox]                                  *)
(*            nps  rows [app, name, side, claimed, added]  (FK -> np)      *)
(*            mb   rows [app, id, updated, forNp]      (id is the PK)      *)
(*            mbs  rows [mbox, side, opened, added, mood]  (FK -> mb.id)   *)
(*            msgs sequence of [app, mbox, side, phase, body, rx, id]      *)
(*   usage:   unp, umb, ucv sequences of rows, cur: sequence of <= 1 row   *)
(***************************************************************************)
EmptyDb  == [np |-> {}, nps |-> {}, mb |-> {}, mbs |-> {}, msgs |-> <<>>,
             anom |-> {}]   \* anom: anomalies the projection of a real file reports
                            \* (duplicate / orphan rows); the model never has any
EmptyUdb == [unp |-> <<>>, umb |-> <<>>, ucv |-> <<>>, cur |-> <<>>]

NpRows(d, a, n)  == {r \in d.np : r.app = a /\ r.name = n}
HasNp(d, a, n)   == NpRows(d, a, n) # {}
TheNp(d, a, n)   == CHOOSE r \in NpRows(d, a, n) : TRUE
NpSides(d, a, n) == {r \in d.nps : r.app = a /\ r.name = n}
MbRows(d, a, i)  == {r \in d.mb : r.app = a /\ r.id = i}
MbAny(d, i)      == {r \in d.mb : r.id = i}
MbSides(d, i)    == {r \in d.mbs : r.mbox = i}
MsgsOf(d, a, i)  == SelectSeq(d.msgs, LAMBDA x : x.app = a /\ x.mbox = i)
AppNames(d, a)   == {r.name : r \in {x \in d.np : x.app = a}}

Snap(d, u) == [db |-> d, udb |-> u]

\* UPDATE mailboxes SET updated=? WHERE id=?      (no app in the key)
Touch(d, i, t) ==
  [d EXCEPT !.mb = {IF r.id = i THEN [r EXCEPT !.updated = t] ELSE r : r \in @}]

\* AppNamespace._add_mailbox: INSERT unless (app,id) exists.  The PRIMARY KEY
\* is `id` alone, so an id living under another app raises IntegrityError
\* (known finding F2).
AddMailbox(d, a, i, forNp, t) ==
  IF MbRows(d, a, i) # {} THEN [db |-> d, ok |-> TRUE]
  ELSE IF MbAny(d, i) # {} THEN [db |-> d, ok |-> FALSE]
  ELSE [db |-> [d EXCEPT !.mb = @ \cup {[app |-> a, id |-> i, updated |-> t,
                                        forNp |-> forNp]}],
        ok |-> TRUE]

\* AppNamespace.open_mailbox + Mailbox.open: one commit segment.
\* Crowding is a count of all side rows taken AFTER the newcomer's row has
\* been inserted and committed (known finding F6: once a third side tried,
\* every open_mailbox on this id raises CrowdedError).
OpenMailbox(d, a, i, s, t) ==
  LET am == AddMailbox(d, a, i, FALSE, t) IN
  IF ~am.ok THEN [db |-> d, res |-> "integrity"]
  ELSE LET d1  == am.db
           has == \E r \in d1.mbs : r.mbox = i /\ r.side = s
           d2  == IF has THEN d1
                  ELSE [d1 EXCEPT !.mbs = @ \cup
                          {[mbox |-> i, side |-> s, opened |-> TRUE,
                            added |-> t, mood |-> ABSENT]}]
           d3  == Touch(d2, i, t)
       IN [db |-> d3,
           res |-> IF Cardinality(MbSides(d3, i)) > 2 THEN "crowded" ELSE "ok"]

(***************************************************************************)
(* Usage summaries of AppNamespace (_summarize_xxx).                            *)
(***************************************************************************)
FirstTime(rows)  == MinOf({r.added : r \in rows})
SecondTime(rows) ==
  LET t0 == FirstTime(rows) IN
  IF Cardinality({r \in rows : r.added = t0}) >= 2 THEN t0
  ELSE MinOf({r.added : r \in {x \in rows : x.added # t0}})

SummNp(a, rows, t, pruned) ==
  LET n == Cardinality(rows)
      t0 == IF n = 0 THEN t ELSE FirstTime(rows)
  IN [app |-> a, started |-> Blurred(t0),
      waiting |-> IF n > 1 THEN SecondTime(rows) - t0 ELSE NULLT,
      total |-> t - t0,
      result |-> IF n > 2 THEN "crowded" ELSE IF pruned THEN "pruney"
                 ELSE IF n = 2 THEN "happy" ELSE "lonely"]

SummMb(a, forNp, rows, t, pruned) ==
  LET n == Cardinality(rows)
      t0 == IF n = 0 THEN t ELSE FirstTime(rows)
      moods == {r.mood : r \in rows} \ {ABSENT, ""}
  IN [app |-> a, forNp |-> forNp, started |-> Blurred(t0),
      waiting |-> IF n > 1 THEN SecondTime(rows) - t0 ELSE NULLT,
      total |-> t - t0,
      result |-> IF n > 2 THEN "crowded" ELSE IF pruned THEN "pruney"
                 ELSE IF "scary" \in moods THEN "scary"
                 ELSE IF "errory" \in moods THEN "errory"
                 ELSE IF "lonely" \in moods THEN "lonely"
                 ELSE IF n = 0 THEN "quiet"
                 ELSE IF n = 1 THEN "lonely" ELSE "happy"]

SetToSeq(X) ==   \* some enumeration of a finite set (order is irrelevant:
                 \* usage tables are compared as bags)
  LET RECURSIVE F(_)
      F(Y) == IF Y = {} THEN <<>>
              ELSE LET y == CHOOSE y \in Y : TRUE IN <<y>> \o F(Y \ {y})
  IN F(X)

(***************************************************************************)
(* Store operations.  Each returns                                         *)
(*   db, udb : final durable state                                         *)
(*   tr      : the durable states after each commit of the operation       *)
(*   res     : outcome                                                     *)
(***************************************************************************)

\* AppNamespace.claim_nameplate
Claim(d, u, a, n, s, t, gid) ==
  LET new  == ~HasNp(d, a, n)
      mbox == IF new THEN gid ELSE TheNp(d, a, n).mbox
      d1   == IF new
              THEN [AddMailbox(d, a, mbox, TRUE, t).db
                      EXCEPT !.np = @ \cup {[app |-> a, name |-> n, mbox |-> mbox]}]
              ELSE d
      srow == {r \in d1.nps : r.app = a /\ r.name = n /\ r.side = s}
      recl == srow # {} /\ ~(CHOOSE r \in srow : TRUE).claimed
      d2   == IF srow = {}
              THEN [d1 EXCEPT !.nps = @ \cup {[app |-> a, name |-> n, side |-> s,
                                              claimed |-> TRUE, added |-> t]}]
              ELSE d1
  IN IF recl THEN [db |-> d, udb |-> u, tr |-> <<>>, res |-> "reclaimed", mbox |-> mbox]
     ELSE LET om == OpenMailbox(d2, a, mbox, s, t) IN
          IF om.res = "integrity"
          THEN [db |-> d2, udb |-> u, tr |-> <<Snap(d2, u)>>, res |-> "integrity",
                mbox |-> mbox]
          ELSE LET d3 == om.db IN
               [db |-> d3, udb |-> u, tr |-> <<Snap(d2, u), Snap(d3, u)>>,
                res |-> IF om.res = "crowded" \/ Cardinality(NpSides(d3, a, n)) > 2
                        THEN "crowded" ELSE "ok",
                mbox |-> mbox]

\* AppNamespace.release_nameplate
Release(d, u, a, n, s, t) ==
  IF ~HasNp(d, a, n) \/ ~(\E r \in d.nps : r.app = a /\ r.name = n /\ r.side = s)
  THEN [db |-> d, udb |-> u, tr |-> <<>>, res |-> "ok"]
  ELSE LET d1 == [d EXCEPT !.nps = {IF r.app = a /\ r.name = n /\ r.side = s
                                    THEN [r EXCEPT !.claimed = FALSE] ELSE r : r \in @}]
           rows == NpSides(d1, a, n)
       IN IF \E r \in rows : r.claimed
          THEN [db |-> d1, udb |-> u, tr |-> <<Snap(d1, u)>>, res |-> "ok"]
          ELSE LET d2 == [d1 EXCEPT !.nps = @ \ rows, !.np = @ \ NpRows(d1, a, n)]
                   u2 == IF UsageOn
                         THEN [u EXCEPT !.unp = Append(@, SummNp(a, rows, t, FALSE))]
                         ELSE u
               IN [db |-> d2, udb |-> u2,
                   tr |-> <<Snap(d1, u), Snap(d1, u2), Snap(d2, u2)>>, res |-> "ok"]

\* Mailbox.close (after the F1 and F8 repairs: nameplate claims are deleted by
\* the nameplates that point at this mailbox, and each such nameplate gets
\* its usage record)
Close(d, u, a, i, s, mood, t) ==
  IF MbRows(d, a, i) = {} \/ ~(\E r \in d.mbs : r.mbox = i /\ r.side = s)
  THEN [db |-> d, udb |-> u, tr |-> <<>>, deleted |-> FALSE]
  ELSE LET d1 == Touch([d EXCEPT !.mbs = {IF r.mbox = i /\ r.side = s
                                          THEN [r EXCEPT !.opened = FALSE, !.mood = mood]
                                          ELSE r : r \in @}], i, t)   \* closing is activity (F9 repair)
           rows == MbSides(d1, i)
           forNp == (CHOOSE r \in MbRows(d, a, i) : TRUE).forNp
       IN IF \E r \in rows : r.opened
          THEN [db |-> d1, udb |-> u, tr |-> <<Snap(d1, u)>>, deleted |-> FALSE]
          ELSE LET nps == {r \in d1.np : r.mbox = i}
                   d2 == [d1 EXCEPT
                            !.nps = {r \in @ : ~(\E p \in nps : p.app = r.app /\ p.name = r.name)},
                            !.np  = @ \ nps,
                            !.msgs = SelectSeq(@, LAMBDA x : x.mbox # i),
                            !.mbs = @ \ rows,
                            !.mb  = {r \in @ : r.id # i}]
                   npRecs == [k \in 1..Cardinality(nps) |->
                                LET p == SetToSeq(nps)[k] IN
                                SummNp(a, NpSides(d1, p.app, p.name), t, FALSE)]
                   u2 == IF UsageOn
                         THEN [u EXCEPT !.unp = @ \o npRecs,
                                        !.umb = Append(@, SummMb(a, forNp, rows, t, FALSE))]
                         ELSE u
               IN [db |-> d2, udb |-> u2,
                   tr |-> <<Snap(d1, u), Snap(d1, u2), Snap(d2, u2)>>,
                   deleted |-> TRUE]

\* Mailbox._add_message
AddMsg(d, a, i, s, phase, body, mid, t) ==
  Touch([d EXCEPT !.msgs = Append(@, [app |-> a, mbox |-> i, side |-> s,
                                      phase |-> phase, body |-> body,
                                      rx |-> t, id |-> mid])], i, t)

\* AppNamespace.prune for app a; L = ids of a's Mailbox objects with listeners
Prune(d, u, a, L, now) ==
  LET old == now - EXP
      d1  == [d EXCEPT !.mb = {IF r.id \in L THEN [r EXCEPT !.updated = now] ELSE r
                               : r \in @}]
      oldMb  == {r \in d1.mb : r.app = a /\ r.updated <= old}
      oldIds == {r.id : r \in oldMb}
      oldNp  == {r \in d1.np : r.app = a /\ r.mbox \in oldIds}
      d2  == [d1 EXCEPT
                !.nps = {r \in @ : ~(\E p \in oldNp : p.app = r.app /\ p.name = r.name)},
                !.np  = @ \ oldNp,
                !.msgs = SelectSeq(@, LAMBDA x : x.mbox \notin oldIds),
                !.mbs = {r \in @ : r.mbox \notin oldIds},
                !.mb  = @ \ oldMb]
      npSeq == SetToSeq(oldNp)
      mbSeq == SetToSeq(oldMb)
      u2  == IF UsageOn
             THEN [u EXCEPT
                     !.unp = @ \o [k \in DOMAIN npSeq |->
                                    SummNp(a, NpSides(d1, a, npSeq[k].name), now, TRUE)],
                     !.umb = @ \o [k \in DOMAIN mbSeq |->
                                    SummMb(a, mbSeq[k].forNp, MbSides(d1, mbSeq[k].id), now, TRUE)]]
             ELSE u
      modified == oldNp # {} \/ oldMb # {}
  IN [db |-> d2, udb |-> u2,
      tr |-> <<Snap(d1, u)>> \o (IF modified THEN <<Snap(d2, u), Snap(d2, u2)>> ELSE <<>>)]

\* Server.get_all_apps
AllApps(d) == {r.app : r \in d.np} \cup {r.app : r \in d.mb} \cup {d.msgs[k].app : k \in DOMAIN d.msgs}

(***************************************************************************)
(* Messages, frames, connections                                           *)
(***************************************************************************)
Msg0 == [type |-> ABSENT, id |-> ABSENT, appid |-> ABSENT, side |-> ABSENT,
         cv |-> ABSENT, nameplate |-> ABSENT, mailbox |-> ABSENT,
         phase |-> ABSENT, body |-> ABSENT, mood |-> ABSENT, ping |-> ABSENT]

Frame0 == [to |-> ABSENT, type |-> ABSENT, id |-> ABSENT, nameplate |-> ABSENT,
           mailbox |-> ABSENT, side |-> ABSENT, phase |-> ABSENT, body |-> ABSENT,
           rx |-> NULLT, names |-> {}, error |-> ABSENT, pong |-> ABSENT,
           w |-> ABSENT, ci |-> 0, synced |-> TRUE]

Conn0 == [up |-> FALSE, bound |-> FALSE, app |-> ABSENT, side |-> ABSENT,
          didAllocate |-> FALSE, didClaim |-> FALSE, npId |-> ABSENT,
          didRelease |-> FALSE, held |-> FALSE, mboxId |-> ABSENT,
          listening |-> FALSE, didClose |-> FALSE]

Ev0 == [k |-> ABSENT, c |-> ABSENT, m |-> Msg0, d |-> 0, gid |-> ABSENT,
        pick |-> ABSENT, fault |-> FALSE, at |-> 0]

FAck(c, id)        == [Frame0 EXCEPT !.to = c, !.type = "ack", !.id = id]
FErr(c, e, ci)     == [Frame0 EXCEPT !.to = c, !.type = "error", !.error = e, !.ci = ci]
FMsg(c, x, ci)     == [Frame0 EXCEPT !.to = c, !.type = "message", !.side = x.side,
                         !.phase = x.phase, !.body = x.body, !.id = x.id,
                         !.rx = x.rx, !.ci = ci]

\* the listeners of mailbox (a, i)
Listeners(conn, a, i) ==
  {c \in Conns : conn[c].up /\ conn[c].listening /\ conn[c].app = a /\ conn[c].mboxId = i}

\* ids of the Mailbox objects of app a that have listeners
ListenedIds(conn, a) ==
  {conn[c].mboxId : c \in {x \in Conns : conn[x].up /\ conn[x].listening /\ conn[x].app = a}}

\* free generated ids: never present in the database and never issued before
\* is the harness's business (first-seen bijection); in the model the event
\* carries the id and Enabled() requires it to be the next unused one.

(***************************************************************************)
(* allocate: AppNamespace._find_available_nameplate_id                     *)
(***************************************************************************)
AllocChoices(d, a) ==
  LET used == AppNames(d, a) IN
  IF Class1 \ used # {} THEN Class1 \ used
  ELSE IF Class2 \ used # {} THEN Class2 \ used
  ELSE IF Class3 \ used # {} THEN Class3 \ used
  ELSE LongNames \ used

(***************************************************************************)
(* The result of a step                                                    *)
(***************************************************************************)
\* S: [db, udb, conn, now, nextSweep, up, rebooted]
Res(S, out, err, tr) == [S |-> S, out |-> out, err |-> err, tr |-> tr]

\* tr: remove states equal to their predecessor (commits that changed
\* nothing), the predecessor of the first being the step's initial state
Dedup(init, tr) ==
  LET RECURSIVE F(_, _)
      F(prev, rest) == IF rest = <<>> THEN <<>>
                       ELSE IF Head(rest) = prev THEN F(prev, Tail(rest))
                       ELSE <<Head(rest)>> \o F(Head(rest), Tail(rest))
  IN F(init, tr)

(***************************************************************************)
(* The protocol errors of server_websocket.py: a pure function of the      *)
(* connection's flags and the message, checked in the code's order.        *)
(* ABSENT = the message is acceptable in this protocol state.              *)
(***************************************************************************)
ProtoErr(cn, m) ==
  IF m.type = ABSENT THEN "missing 'type'"
  ELSE IF m.type = "ping" THEN (IF m.ping = ABSENT THEN "ping requires 'ping'" ELSE ABSENT)
  ELSE IF m.type = "bind" THEN
    (IF cn.bound THEN "already bound"
     ELSE IF m.appid = ABSENT THEN "bind requires 'appid'"
     ELSE IF m.side = ABSENT THEN "bind requires 'side'" ELSE ABSENT)
  ELSE IF ~cn.bound THEN "must bind first"
  ELSE IF m.type = "list" THEN ABSENT
  ELSE IF m.type = "allocate" THEN
    (IF cn.didAllocate THEN "you already allocated one, don't be greedy" ELSE ABSENT)
  ELSE IF m.type = "claim" THEN
    (IF m.nameplate = ABSENT THEN "claim requires 'nameplate'"
     ELSE IF cn.didClaim THEN "only one claim per connection" ELSE ABSENT)
  ELSE IF m.type = "release" THEN
    (IF cn.didRelease THEN "only one release per connection"
     ELSE IF m.nameplate # ABSENT /\ cn.npId # ABSENT /\ m.nameplate # cn.npId
          THEN "release and claim must use same nameplate"
     ELSE IF m.nameplate = ABSENT /\ cn.npId = ABSENT
          THEN "release without nameplate must follow claim" ELSE ABSENT)
  ELSE IF m.type = "open" THEN
    (IF cn.held THEN "only one open per connection"
     ELSE IF m.mailbox = ABSENT THEN "open requires 'mailbox'" ELSE ABSENT)
  ELSE IF m.type = "add" THEN
    (IF ~cn.held THEN "must open mailbox before adding"
     ELSE IF m.phase = ABSENT THEN "missing 'phase'"
     ELSE IF m.body = ABSENT THEN "missing 'body'" ELSE ABSENT)
  ELSE IF m.type = "close" THEN
    (IF cn.didClose THEN "only one close per connection"
     ELSE IF m.mailbox # ABSENT /\ cn.mboxId # ABSENT /\ m.mailbox # cn.mboxId
          THEN "open and close must use same mailbox"
     ELSE IF m.mailbox = ABSENT /\ cn.mboxId = ABSENT
          THEN "close without mailbox must follow open" ELSE ABSENT)
  ELSE "unknown type"


(***************************************************************************)
(* onMessage                                                               *)
(***************************************************************************)
Handle(S, c, m, gid, pick) ==
  LET cn  == S.conn[c]
      d   == S.db
      u   == S.udb
      t   == S.now
      a   == cn.app
      s   == cn.side
      pe  == ProtoErr(cn, m)
      ack == IF m.type = ABSENT THEN <<>> ELSE <<FAck(c, m.id)>>
      CI(tr) == Len(Dedup(Snap(d, u), tr))
      \* finish with new connection record, databases, extra frames
      Fin(cn2, d2, u2, frames, tr) ==
        Res([S EXCEPT !.conn[c] = cn2, !.db = d2, !.udb = u2], ack \o frames, ABSENT, tr)
      \* internal failure: the exception escapes onMessage and Twisted drops
      \* the connection
      Boom(d2, u2, tr, e) ==
        Res([S EXCEPT !.conn[c] = Conn0, !.db = d2, !.udb = u2], ack, e, tr)
  IN
  \* a protocol error: one error frame (after the ack), nothing else changes
  IF pe # ABSENT THEN Res(S, ack \o <<FErr(c, pe, 0)>>, ABSENT, <<>>)
  ELSE CASE m.type = "ping" ->
    Fin(cn, d, u, <<[Frame0 EXCEPT !.to = c, !.type = "pong", !.pong = m.ping]>>, <<>>)
  [] m.type = "bind" ->
    \* log_client_version indexes client_version[0], [1] whatever the configuration: a value that is
    \* not a pair (here: the BadMoods tokens, a one-element list / an empty object) fails internally
    IF m.cv \in BadMoods THEN Boom(d, u, <<>>, IF m.cv = "#{}" THEN "KeyError" ELSE "IndexError") ELSE
    LET u2 == IF UsageOn
              THEN [u EXCEPT !.ucv = Append(@, [app |-> m.appid, side |-> m.side,
                                               t |-> Blurred(t), cv |-> m.cv])]
              ELSE u
    IN Fin([cn EXCEPT !.bound = TRUE, !.app = m.appid, !.side = m.side],
           d, u2, <<>>, <<Snap(d, u2)>>)
  [] m.type = "list" ->
    Fin(cn, d, u, <<[Frame0 EXCEPT !.to = c, !.type = "nameplates",
                       !.names = IF AllowList THEN AppNames(d, a) ELSE {}]>>, <<>>)
  [] m.type = "allocate" ->
    \* a freshly chosen name cannot be reclaimed or crowded
    LET r == Claim(d, u, a, pick, s, t, gid) IN
    Fin([cn EXCEPT !.didAllocate = TRUE], r.db, r.udb,
        <<[Frame0 EXCEPT !.to = c, !.type = "allocated", !.nameplate = pick,
                         !.ci = CI(r.tr)]>>, r.tr)
  [] m.type = "claim" ->
    LET cn2 == [cn EXCEPT !.didClaim = TRUE, !.npId = m.nameplate]
        r   == Claim(d, u, a, m.nameplate, s, t, gid)
    IN IF r.res = "integrity" THEN Boom(r.db, r.udb, r.tr, "IntegrityError")
       ELSE IF r.res = "ok"
       THEN Fin(cn2, r.db, r.udb,
                <<[Frame0 EXCEPT !.to = c, !.type = "claimed", !.mailbox = r.mbox,
                                 !.ci = CI(r.tr)]>>, r.tr)
       ELSE Fin(cn2, r.db, r.udb, <<FErr(c, r.res, CI(r.tr))>>, r.tr)
  [] m.type = "release" ->
    LET n == IF m.nameplate # ABSENT THEN m.nameplate ELSE cn.npId
        r == Release(d, u, a, n, s, t)
    IN Fin([cn EXCEPT !.didRelease = TRUE], r.db, r.udb,
           <<[Frame0 EXCEPT !.to = c, !.type = "released", !.ci = CI(r.tr)]>>, r.tr)
  [] m.type = "open" ->
    LET cn2 == [cn EXCEPT !.mboxId = m.mailbox]
        r   == OpenMailbox(d, a, m.mailbox, s, t)
        tr  == <<Snap(r.db, u)>>
    IN IF r.res = "integrity" THEN Boom(d, u, <<>>, "IntegrityError")
       ELSE IF r.res = "crowded" THEN Fin(cn2, r.db, u, <<FErr(c, "crowded", CI(tr))>>, tr)
       ELSE LET old == MsgsOf(r.db, a, m.mailbox) IN
            Fin([cn2 EXCEPT !.held = TRUE, !.listening = TRUE], r.db, u,
                [k \in DOMAIN old |-> FMsg(c, old[k], CI(tr))], tr)
  [] m.type = "add" ->
    \* a phase / body / id SQLite cannot bind: the INSERT (the first write) raises
    IF {m.phase, m.body, m.id} \cap BadMoods # {} THEN Boom(d, u, <<>>, "ProgrammingError") ELSE
    \* `pick` of an add: a subscriber whose connection is in its closing handshake, so that the send
    \* to it fails (ABSENT: none).  That subscriber misses the message; nothing else changes.
    LET d2 == AddMsg(d, a, cn.mboxId, s, m.phase, m.body, m.id, t)
        x  == d2.msgs[Len(d2.msgs)]
        ls == SetToSeq(Listeners(S.conn, a, cn.mboxId) \ {pick})
    IN Fin(cn, d2, u, [k \in DOMAIN ls |-> FMsg(ls[k], x, 1)], <<Snap(d2, u)>>)
  [] m.type = "close" ->
    LET i   == IF m.mailbox # ABSENT THEN m.mailbox ELSE cn.mboxId
        o   == IF cn.held THEN [db |-> d, res |-> "ok"] ELSE OpenMailbox(d, a, i, s, t)
        tr1 == IF cn.held THEN <<>> ELSE <<Snap(o.db, u)>>
    IN IF o.res = "integrity" THEN Boom(d, u, <<>>, "IntegrityError")
       ELSE IF o.res = "crowded" THEN Fin(cn, o.db, u, <<FErr(c, "crowded", CI(tr1))>>, tr1)
       \* Mailbox.close: the two look-ups, then the UPDATE fails to bind the mood
       ELSE IF m.mood \in BadMoods /\ MbRows(o.db, a, i) # {} /\ (\E x \in o.db.mbs : x.mbox = i /\ x.side = s)
            THEN Boom(o.db, u, tr1, "ProgrammingError")
       ELSE LET r   == Close(o.db, u, a, i, s, m.mood, t)
                tr  == tr1 \o r.tr
                cn2 == [cn EXCEPT !.held = FALSE, !.listening = FALSE, !.didClose = TRUE]
                \* Mailbox.close stops the listeners that still linger (after
                \* the F3 repair the callback drops their mailbox handle)
                stopped == IF r.deleted THEN Listeners(S.conn, a, i) \ {c} ELSE {}
                conn2 == [x \in Conns |->
                            IF x = c THEN cn2
                            ELSE IF x \in stopped
                                 THEN [S.conn[x] EXCEPT !.held = FALSE, !.listening = FALSE]
                                 ELSE S.conn[x]]
            IN Res([S EXCEPT !.conn = conn2, !.db = r.db, !.udb = r.udb],
                   ack \o <<[Frame0 EXCEPT !.to = c, !.type = "closed", !.ci = CI(tr)]>>,
                   ABSENT, tr)

(***************************************************************************)
(* expire(): prune_all_apps over sorted(get_all_apps()), then dump_stats   *)
(***************************************************************************)
SweepDb(S) ==
  LET todo == SelectSeq(AppOrder, LAMBDA a : a \in AllApps(S.db))
      RECURSIVE F(_, _, _, _)
      F(d, u, k, tr) ==
        IF k > Len(todo) THEN [db |-> d, udb |-> u, tr |-> tr]
        ELSE LET r == Prune(d, u, todo[k], ListenedIds(S.conn, todo[k]), S.now)
             IN F(r.db, r.udb, k + 1, tr \o r.tr)
  IN F(S.db, S.udb, 1, <<>>)

DumpStats(S, u) ==
  IF UsageOn
  THEN [u EXCEPT !.cur = <<[rebooted |-> S.rebooted, updated |-> S.now, blur |-> Blur,
                            conns |-> Cardinality({c \in Conns : S.conn[c].up /\ S.conn[c].listening})]>>]
  ELSE u

Sweep(S, fault) ==
  LET r  == IF fault THEN [db |-> S.db, udb |-> S.udb, tr |-> <<>>] ELSE SweepDb(S)
      u2 == DumpStats(S, r.udb)
  IN Res([S EXCEPT !.db = r.db, !.udb = u2, !.nextSweep = S.now + PERIOD],
         <<>>, ABSENT, r.tr \o <<Snap(r.db, u2)>>)

(***************************************************************************)
(* Events                                                                  *)
(***************************************************************************)
NoConns == [c \in Conns |-> Conn0]

InitState == [db |-> EmptyDb, udb |-> EmptyUdb, conn |-> NoConns, now |-> 0,
              nextSweep |-> 0, up |-> FALSE, rebooted |-> 0, gen |-> 0]

\* the next id the server will generate (S.gen = number of generated ids that
\* became visible so far)
NextGen(S) == IF S.gen < Len(GenMbox) THEN GenMbox[S.gen + 1] ELSE ABSENT
KnownMbox(S) == ClientMbox \cup {GenMbox[k] : k \in 1..S.gen}

\* does handling m on c consume a generated id / a random pick?
NeedsGen(S, c, m) ==
  LET cn == S.conn[c] IN
  /\ cn.bound
  /\ \/ m.type = "allocate" /\ ~cn.didAllocate
     \/ m.type = "claim" /\ m.nameplate # ABSENT /\ ~cn.didClaim
        /\ ~HasNp(S.db, cn.app, m.nameplate)
NeedsPick(S, c, m) ==
  S.conn[c].bound /\ m.type = "allocate" /\ ~S.conn[c].didAllocate

Step0(S, e) ==
  CASE e.k = "Connect" ->
         Res([S EXCEPT !.conn[e.c] = [Conn0 EXCEPT !.up = TRUE]],
             <<[Frame0 EXCEPT !.to = e.c, !.type = "welcome", !.w = Welcome]>>, ABSENT, <<>>)
    [] e.k = "Cmd" -> Handle(S, e.c, e.m, e.gid, e.pick)
    [] e.k = "Drop" -> Res([S EXCEPT !.conn[e.c] = Conn0], <<>>, ABSENT, <<>>)
    [] e.k = "Advance" -> Res([S EXCEPT !.now = @ + e.d], <<>>, ABSENT, <<>>)
    [] e.k = "Sweep" -> Sweep(S, e.fault)
    [] e.k \in {"Stop", "Crash"} ->
         Res([S EXCEPT !.conn = NoConns, !.up = FALSE], <<>>, ABSENT, <<>>)
    [] e.k = "Start" ->
         LET S1 == [S EXCEPT !.up = TRUE, !.rebooted = S.now, !.conn = NoConns] IN
         Sweep(S1, FALSE)
    \* the process dies inside a command / sweep after its e.at-th durable
    \* change: the frames sent so far are out, everything volatile is gone
    [] e.k \in {"CrashInCmd", "CrashInSweep"} ->
         LET r  == IF e.k = "CrashInCmd" THEN Handle(S, e.c, e.m, e.gid, e.pick)
                   ELSE Sweep(S, FALSE)
             tr == Dedup(Snap(S.db, S.udb), r.tr)
             at == IF e.at = 0 THEN Snap(S.db, S.udb) ELSE tr[e.at]
         IN Res([S EXCEPT !.db = at.db, !.udb = at.udb, !.conn = NoConns, !.up = FALSE],
                SelectSeq(r.out, LAMBDA f : f.ci <= e.at), "crash", SubSeq(tr, 1, e.at))

\* Step0 plus: commits that changed nothing are dropped from tr, and a
\* generated id counts as used once it is visible in the database
Step(S, e) ==
  LET r == Step0(S, e)
      vis == e.gid # ABSENT /\ \E x \in r.S.db.mb : x.id = e.gid
  IN [r EXCEPT !.S.gen = IF vis THEN @ + 1 ELSE @,
               !.tr = Dedup(Snap(S.db, S.udb), r.tr)]

\* when may the event happen
EnabledCmd(S, e) ==
  /\ S.up /\ S.conn[e.c].up
  /\ IF NeedsGen(S, e.c, e.m) THEN e.gid # ABSENT /\ e.gid = NextGen(S) ELSE e.gid = ABSENT
  /\ IF NeedsPick(S, e.c, e.m) THEN e.pick \in AllocChoices(S.db, S.conn[e.c].app)
     ELSE IF e.m.type = "add" THEN (e.pick = ABSENT \/ (e.pick \in Conns /\ e.pick # e.c /\ S.conn[e.pick].up))
     ELSE e.pick = ABSENT

Enabled(S, e) ==
  CASE e.k = "Connect" -> S.up /\ ~S.conn[e.c].up
    [] e.k = "Cmd" -> EnabledCmd(S, e)
    [] e.k = "Drop" -> S.up /\ S.conn[e.c].up
    [] e.k = "Advance" -> e.d > 0 /\ (~S.up \/ S.now + e.d <= S.nextSweep)
    [] e.k = "Sweep" -> S.up /\ S.now = S.nextSweep
    [] e.k = "Stop" -> S.up
    [] e.k = "Crash" -> S.up
    [] e.k = "Start" -> ~S.up
    [] e.k = "CrashInCmd" ->
         /\ EnabledCmd(S, e)
         /\ e.at < Len(Dedup(Snap(S.db, S.udb), Handle(S, e.c, e.m, e.gid, e.pick).tr))
    [] e.k = "CrashInSweep" ->
         /\ S.up /\ S.now = S.nextSweep
         /\ e.at < Len(Dedup(Snap(S.db, S.udb), Sweep(S, FALSE).tr))
=============================================================================
