------------------------------ MODULE MBServer ------------------------------
(***************************************************************************)
(* The mailbox server as a state machine: Next == some enabled event of    *)
(* MBCore!Step.  Observable variables (db, udb, now, act, out, err, tr)    *)
(* are what an outside observer with read access to the database files     *)
(* and to the sockets sees; hidden variables are the server's volatile     *)
(* state; g is the ghost of MBProps.                                       *)
(***************************************************************************)
EXTENDS MBProps

CONSTANTS
  MsgIds,        \* values of the optional "id" field (ABSENT = not sent)
  AddMsgs,       \* set of [phase, body] offered to `add`
  MoodSet,       \* moods offered to `close` (ABSENT = not sent)
  CVs,           \* client_version tokens offered to `bind` (ABSENT = not sent)
  Malformed,     \* also generate commands with missing fields / bad types
  ClaimNames,    \* nameplates offered to claim / release
  PickSet,       \* outcomes of allocate's random choice that are explored
  AdvanceSteps,  \* clock increments
  MaxTime, MaxMsgs, MaxUsage, MaxDepth,  \* state constraint
  WithStop, WithCrash, WithCrashIn, WithFault, WithTime,
  WithSendFail   \* an add may meet a subscriber whose connection is closing (the send to it fails)

VARIABLES db, udb, now,            \* observable state
          act, out, err, tr,       \* observation of the last step
          hid,                     \* hidden: [conn, nextSweep, up, rebooted, gen]
          g                        \* ghost

vars == <<db, udb, now, act, out, err, tr, hid, g>>

State == [db |-> db, udb |-> udb, conn |-> hid.conn, now |-> now,
          nextSweep |-> hid.nextSweep, up |-> hid.up, rebooted |-> hid.rebooted,
          gen |-> hid.gen]

Opt(S) == IF Malformed THEN S \cup {ABSENT} ELSE S

MsgsFor(S) ==
  LET M(ty) == [Msg0 EXCEPT !.type = ty] IN
  UNION {
    {[M("bind") EXCEPT !.appid = a, !.side = s, !.cv = v] : a \in Opt(Apps), s \in Opt(Sides), v \in CVs},
    {M("list"), M("allocate")},
    {[M("claim") EXCEPT !.nameplate = n] : n \in Opt(ClaimNames)},
    {[M("release") EXCEPT !.nameplate = n] : n \in ClaimNames \cup {ABSENT}},
    {[M("open") EXCEPT !.mailbox = i] : i \in Opt(KnownMbox(S))},
    {[M("add") EXCEPT !.phase = x.phase, !.body = x.body] : x \in AddMsgs},
    IF Malformed THEN {[M("add") EXCEPT !.phase = "p1"], [M("add") EXCEPT !.body = "b1"]} ELSE {},
    {[M("close") EXCEPT !.mailbox = i, !.mood = md] : i \in KnownMbox(S) \cup {ABSENT}, md \in MoodSet},
    IF Malformed THEN {M("ping"), [M("ping") EXCEPT !.ping = "p"], M("bogus"), M(ABSENT)} ELSE {}
  }

WithId(M) == {[m EXCEPT !.id = i] : m \in M, i \in MsgIds}

CmdEvents(S, c, m, kind, ats) ==
  {[Ev0 EXCEPT !.k = kind, !.c = c, !.m = m, !.at = k,
               !.gid = IF NeedsGen(S, c, m) THEN NextGen(S) ELSE ABSENT, !.pick = p]
   : p \in (IF NeedsPick(S, c, m) THEN AllocChoices(S.db, S.conn[c].app) \cap PickSet
            ELSE IF WithSendFail /\ kind = "Cmd" /\ m.type = "add"
                 THEN {ABSENT} \cup {x \in Conns \ {c} : S.conn[x].up /\ S.conn[x].listening}
                 ELSE {ABSENT}),
     k \in ats}

Events(S) ==
  LET E(k) == [Ev0 EXCEPT !.k = k]
      upc == {x \in Conns : S.conn[x].up} IN
  UNION {
    {[E("Connect") EXCEPT !.c = c] : c \in Conns},
    {[E("Drop") EXCEPT !.c = c] : c \in Conns},
    UNION {CmdEvents(S, c, m, "Cmd", {0}) : c \in upc, m \in WithId(MsgsFor(S))},
    IF WithTime THEN {[E("Advance") EXCEPT !.d = d] : d \in AdvanceSteps} \cup {E("Sweep")} ELSE {},
    IF WithFault THEN {[E("Sweep") EXCEPT !.fault = TRUE]} ELSE {},
    {E("Start")},
    IF WithStop THEN {E("Stop")} ELSE {},
    IF WithCrash THEN {E("Crash")} ELSE {},
    IF WithCrashIn
    THEN UNION {CmdEvents(S, c, m, "CrashInCmd", 0..3) : c \in upc, m \in WithId(MsgsFor(S))}
         \cup {[E("CrashInSweep") EXCEPT !.at = k] : k \in 0..6}
    ELSE {}
  }

Init ==
  /\ db = EmptyDb /\ udb = EmptyUdb /\ now = 0
  /\ act = Ev0 /\ out = <<>> /\ err = ABSENT /\ tr = <<>>
  /\ hid = [conn |-> NoConns, nextSweep |-> 0, up |-> FALSE, rebooted |-> 0, gen |-> 0]
  /\ g = G0

Obs(e, r) == [e |-> e, out |-> r.out, err |-> r.err, tr |-> r.tr,
              db |-> db, udb |-> udb, now |-> now,
              db2 |-> r.S.db, udb2 |-> r.S.udb, now2 |-> r.S.now]

Next ==
  \E e \in Events(State) :
    /\ Enabled(State, e)
    /\ LET r == Step(State, e) IN
       /\ db' = r.S.db /\ udb' = r.S.udb /\ now' = r.S.now
       /\ act' = e /\ out' = r.out /\ err' = r.err /\ tr' = r.tr
       /\ hid' = [conn |-> r.S.conn, nextSweep |-> r.S.nextSweep, up |-> r.S.up,
                  rebooted |-> r.S.rebooted, gen |-> r.S.gen]
       /\ g' = GNext(g, Obs(e, r))

Spec == Init /\ [][Next]_vars

\* the observed step from the last state to this one
O == [e |-> act', out |-> out', err |-> err', tr |-> tr',
      db |-> db, udb |-> udb, now |-> now, db2 |-> db', udb2 |-> udb', now2 |-> now']

P01 == [][PropHolds("C01", g, O, g')]_vars
P02 == [][PropHolds("C02", g, O, g')]_vars
P03 == [][PropHolds("C03", g, O, g')]_vars
P04 == [][PropHolds("C04", g, O, g')]_vars
P05 == [][PropHolds("C05", g, O, g')]_vars
P05keep == [][PropHolds("C05keep", g, O, g')]_vars
P06 == [][PropHolds("C06", g, O, g')]_vars
P07 == [][PropHolds("C07", g, O, g')]_vars
P08 == [][PropHolds("C08", g, O, g')]_vars
P09 == [][PropHolds("C09", g, O, g')]_vars
P10 == [][PropHolds("C10", g, O, g')]_vars
P12 == [][PropHolds("C12", g, O, g')]_vars
P13 == [][PropHolds("C13", g, O, g')]_vars
P15 == [][PropHolds("C15", g, O, g')]_vars
P16 == [][PropHolds("C16", g, O, g')]_vars
\* C17.f apart from the F2 signature (known finding)
P17 == [][PropHolds("C17", g, O, g') \/ F2sig(g, O)]_vars
P18 == [][PropHolds("C18", g, O, g')]_vars
\* the known findings are behaviours of the specification too (it mirrors the code): TLC must be able
\* to FIND a violation of these two (used as witnesses, expected to be violated)
W_F2 == [][C17f(g, O, g')]_vars
W_F6 == [][C05keep(g, O, g')]_vars

\* the ghost's idea of each connection agrees with the server's own flags
\* (the protocol-level observer and the implementation never drift apart)
GhostAgrees == \A c \in Conns : g.gc[c] = hid.conn[c]

(***************************************************************************)
(* Structural invariants of the stored state (not one of the listed        *)
(* properties: what every reader of the tables may rely on, at every       *)
(* durable state including the ones a crash leaves).  The schema only      *)
(* enforces W2, W3 and W6 (foreign keys, primary key); the rest is kept by *)
(* the code.  Checked by TLC on every instance; on recorded executions the *)
(* conformance comparison implies them (the projection of a real file      *)
(* reports duplicate and orphan rows in `anom`, which is never non-empty   *)
(* in the specification).                                                  *)
(***************************************************************************)
WF(d, u, atRest) ==
  /\ d.anom = {}
  \* W1 at most one nameplate row per (app, name); at most one row per side of it
  /\ \A r1, r2 \in d.np : (r1.app = r2.app /\ r1.name = r2.name) => r1 = r2
  /\ \A r1, r2 \in d.nps : (r1.app = r2.app /\ r1.name = r2.name /\ r1.side = r2.side) => r1 = r2
  \* W2 side rows belong to a nameplate, nameplates lead to a mailbox of the same app
  /\ \A r \in d.nps : HasNp(d, r.app, r.name)
  /\ \A r \in d.np : MbRows(d, r.app, r.mbox) # {}
  \* W3 mailbox side rows belong to a mailbox; one row per (mailbox, side)
  /\ \A r \in d.mbs : MbAny(d, r.mbox) # {}
  /\ \A r1, r2 \in d.mbs : (r1.mbox = r2.mbox /\ r1.side = r2.side) => r1 = r2
  \* W4 a nameplate exists only while somebody holds it (between the two commits of the last
  \*    release it exists with no claim left: a crash point, not a state at rest)
  /\ atRest => \A r \in d.np : \E s \in NpSides(d, r.app, r.name) : s.claimed
  \* W5 stored messages belong to a stored mailbox of their app
  /\ \A k \in DOMAIN d.msgs : MbRows(d, d.msgs[k].app, d.msgs[k].mbox) # {}
  \* W6 mailbox ids are unique over all apps (the PRIMARY KEY; cause of F2)
  /\ \A r1, r2 \in d.mb : r1.id = r2.id => r1 = r2
  \* W7 a mailbox without a side row was made for a nameplate (claim died before its open)
  /\ \A r \in d.mb : MbSides(d, r.id) = {} => r.forNp
  \* W8 no stamp lies in the future; activity is never older than the sides' arrival
  /\ \A r \in d.mb : r.updated <= now /\ \A s \in MbSides(d, r.id) : s.added <= r.updated
  /\ \A r \in d.nps : r.added <= now
  \* W9 usage: nothing without a usage database, at most one status row
  /\ Len(u.cur) <= 1
  /\ ~UsageOn => u = EmptyUdb
StoreInv == WF(db, udb, ~g.crashed)
\* ... and so is every durable state a step passes through (every crash point)
StoreInvCrash == \A k \in DOMAIN tr : WF(tr[k].db, tr[k].udb, FALSE)

\* per-connection flags of the implementation are mutually consistent
ConnInv ==
  \A c \in Conns : LET x == hid.conn[c] IN
    /\ ~x.up => x = Conn0
    /\ (x.didAllocate \/ x.didClaim \/ x.didRelease \/ x.held \/ x.listening \/ x.didClose) => x.bound
    /\ x.listening => x.held
    /\ ~hid.up => ~x.up

(***************************************************************************)
(* Drainability (the reachability half of C13 / C10, beyond the step-wise  *)
(* clauses): from EVERY reachable state -- also the ones a kill inside a   *)
(* command or a sweep leaves, also with the known findings' leftovers --   *)
(* the fixed schedule "everybody goes away (a stopped server is started);  *)
(* then the sweeps that fall due, one period after the other, until more   *)
(* than the expiration time has passed" ends with an empty channel         *)
(* database.  Computed with Step itself inside a state predicate, so the   *)
(* model's clock bound (Constr) does not cut the schedule short: TLC       *)
(* evaluates it on every state it reaches.                                 *)
(***************************************************************************)
EvK(k) == [Ev0 EXCEPT !.k = k]
Quiet(S) == IF S.up THEN [S EXCEPT !.conn = NoConns] ELSE Step(S, EvK("Start")).S
DrainRound(S) ==
  LET S1 == IF S.now < S.nextSweep THEN [S EXCEPT !.now = S.nextSweep] ELSE S
  IN Step(S1, EvK("Sweep")).S
RECURSIVE DrainN(_, _)
DrainN(S, n) == IF n = 0 THEN S ELSE DrainN(DrainRound(S), n - 1)
DrainRounds == (EXP \div PERIOD) + 2
Drained == DrainN(Quiet(State), DrainRounds)
Drains == Drained.db = EmptyDb /\ Drained.now > now + EXP

\* ... and, with a usage database, draining writes exactly one usage record for every nameplate and
\* every mailbox that is stored now (C15's "exactly one per retirement", from every reachable state,
\* crash leftovers included), and none for anything else
DrainsUsage ==
  UsageOn => /\ Len(Drained.udb.unp) = Len(udb.unp) + Cardinality(db.np)
             /\ Len(Drained.udb.umb) = Len(udb.umb) + Cardinality(db.mb)
             /\ Len(Drained.udb.ucv) = Len(udb.ucv)

\* observation variables are not part of a state's identity
View == <<db, udb, now, hid, g>>

Constr ==
  /\ now <= MaxTime
  /\ Len(db.msgs) <= MaxMsgs
  /\ Len(udb.unp) + Len(udb.umb) + Len(udb.ucv) <= MaxUsage
  /\ TLCGet("level") <= MaxDepth
=============================================================================
