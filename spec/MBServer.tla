------------------------------ MODULE MBServer ------------------------------
(***************************************************************************)
(* The mailbox server as a state machine: Next == some enabled event of    *)
(* MBCore!Step.  Observable variables (db, udb, now, act, out, err, tr)    *)
(* are what an outside observer with read access to the database files     *)
(* and to the sockets sees; hidden variables are the server's volatile     *)
(* state; g is the ghost of MBProps.                                       *)
(***************************************************************************)
EXTENDS MBProps

CONSTANTS
  MsgIds,        \* values of the optional "id" field (ABSENT = not sent)
  AddMsgs,       \* set of [phase, body] offered to `add`
  MoodSet,       \* moods offered to `close` (ABSENT = not sent)
  CVs,           \* client_version tokens offered to `bind` (ABSENT = not sent)
  Malformed,     \* also generate commands with missing fields / bad types
  ClaimNames,    \* nameplates offered to claim / release
  PickSet,       \* outcomes of allocate's random choice that are explored
  AdvanceSteps,  \* clock increments
  MaxTime, MaxMsgs, MaxUsage, MaxDepth,  \* state constraint
  WithStop, WithCrash, WithCrashIn, WithFault, WithTime

VARIABLES db, udb, now,            \* observable state
          act, out, err, tr,       \* observation of the last step
          hid,                     \* hidden: [conn, nextSweep, up, rebooted, gen]
          g                        \* ghost

vars == <<db, udb, now, act, out, err, tr, hid, g>>

State == [db |-> db, udb |-> udb, conn |-> hid.conn, now |-> now,
          nextSweep |-> hid.nextSweep, up |-> hid.up, rebooted |-> hid.rebooted,
          gen |-> hid.gen]

Opt(S) == IF Malformed THEN S \cup {ABSENT} ELSE S

MsgsFor(S) ==
  LET M(ty) == [Msg0 EXCEPT !.type = ty] IN
  UNION {
    {[M("bind") EXCEPT !.appid = a, !.side = s, !.cv = v] : a \in Opt(Apps), s \in Opt(Sides), v \in CVs},
    {M("list"), M("allocate")},
    {[M("claim") EXCEPT !.nameplate = n] : n \in Opt(ClaimNames)},
    {[M("release") EXCEPT !.nameplate = n] : n \in ClaimNames \cup {ABSENT}},
    {[M("open") EXCEPT !.mailbox = i] : i \in Opt(KnownMbox(S))},
    {[M("add") EXCEPT !.phase = x.phase, !.body = x.body] : x \in AddMsgs},
    IF Malformed THEN {[M("add") EXCEPT !.phase = "p1"], [M("add") EXCEPT !.body = "b1"]} ELSE {},
    {[M("close") EXCEPT !.mailbox = i, !.mood = md] : i \in KnownMbox(S) \cup {ABSENT}, md \in MoodSet},
    IF Malformed THEN {M("ping"), [M("ping") EXCEPT !.ping = "p"], M("bogus"), M(ABSENT)} ELSE {}
  }

WithId(M) == {[m EXCEPT !.id = i] : m \in M, i \in MsgIds}

CmdEvents(S, c, m, kind, ats) ==
  {[Ev0 EXCEPT !.k = kind, !.c = c, !.m = m, !.at = k,
               !.gid = IF NeedsGen(S, c, m) THEN NextGen(S) ELSE ABSENT, !.pick = p]
   : p \in (IF NeedsPick(S, c, m) THEN AllocChoices(S.db, S.conn[c].app) \cap PickSet ELSE {ABSENT}),
     k \in ats}

Events(S) ==
  LET E(k) == [Ev0 EXCEPT !.k = k]
      upc == {x \in Conns : S.conn[x].up} IN
  UNION {
    {[E("Connect") EXCEPT !.c = c] : c \in Conns},
    {[E("Drop") EXCEPT !.c = c] : c \in Conns},
    UNION {CmdEvents(S, c, m, "Cmd", {0}) : c \in upc, m \in WithId(MsgsFor(S))},
    IF WithTime THEN {[E("Advance") EXCEPT !.d = d] : d \in AdvanceSteps} \cup {E("Sweep")} ELSE {},
    IF WithFault THEN {[E("Sweep") EXCEPT !.fault = TRUE]} ELSE {},
    {E("Start")},
    IF WithStop THEN {E("Stop")} ELSE {},
    IF WithCrash THEN {E("Crash")} ELSE {},
    IF WithCrashIn
    THEN UNION {CmdEvents(S, c, m, "CrashInCmd", 0..3) : c \in upc, m \in WithId(MsgsFor(S))}
         \cup {[E("CrashInSweep") EXCEPT !.at = k] : k \in 0..6}
    ELSE {}
  }

Init ==
  /\ db = EmptyDb /\ udb = EmptyUdb /\ now = 0
  /\ act = Ev0 /\ out = <<>> /\ err = ABSENT /\ tr = <<>>
  /\ hid = [conn |-> NoConns, nextSweep |-> 0, up |-> FALSE, rebooted |-> 0, gen |-> 0]
  /\ g = G0

Obs(e, r) == [e |-> e, out |-> r.out, err |-> r.err, tr |-> r.tr,
              db |-> db, udb |-> udb, now |-> now,
              db2 |-> r.S.db, udb2 |-> r.S.udb, now2 |-> r.S.now]

Next ==
  \E e \in Events(State) :
    /\ Enabled(State, e)
    /\ LET r == Step(State, e) IN
       /\ db' = r.S.db /\ udb' = r.S.udb /\ now' = r.S.now
       /\ act' = e /\ out' = r.out /\ err' = r.err /\ tr' = r.tr
       /\ hid' = [conn |-> r.S.conn, nextSweep |-> r.S.nextSweep, up |-> r.S.up,
                  rebooted |-> r.S.rebooted, gen |-> r.S.gen]
       /\ g' = GNext(g, Obs(e, r))

Spec == Init /\ [][Next]_vars

\* the observed step from the last state to this one
O == [e |-> act', out |-> out', err |-> err', tr |-> tr',
      db |-> db, udb |-> udb, now |-> now, db2 |-> db', udb2 |-> udb', now2 |-> now']

P01 == [][PropHolds("C01", g, O, g')]_vars
P02 == [][PropHolds("C02", g, O, g')]_vars
P03 == [][PropHolds("C03", g, O, g')]_vars
P04 == [][PropHolds("C04", g, O, g')]_vars
P05 == [][PropHolds("C05", g, O, g')]_vars
P05keep == [][PropHolds("C05keep", g, O, g')]_vars
P06 == [][PropHolds("C06", g, O, g')]_vars
P07 == [][PropHolds("C07", g, O, g')]_vars
P08 == [][PropHolds("C08", g, O, g')]_vars
P09 == [][PropHolds("C09", g, O, g')]_vars
P10 == [][PropHolds("C10", g, O, g')]_vars
P12 == [][PropHolds("C12", g, O, g')]_vars
P13 == [][PropHolds("C13", g, O, g')]_vars
P15 == [][PropHolds("C15", g, O, g')]_vars
P16 == [][PropHolds("C16", g, O, g')]_vars
\* C17.f apart from the F2 signature (known finding)
P17 == [][PropHolds("C17", g, O, g') \/ F2sig(g, O)]_vars
P18 == [][PropHolds("C18", g, O, g')]_vars
\* the known findings are behaviours of the specification too (it mirrors the code): TLC must be able
\* to FIND a violation of these two (used as witnesses, expected to be violated)
W_F2 == [][C17f(g, O, g')]_vars
W_F6 == [][C05keep(g, O, g')]_vars

\* the ghost's idea of each connection agrees with the server's own flags
\* (the protocol-level observer and the implementation never drift apart)
GhostAgrees == \A c \in Conns : g.gc[c] = hid.conn[c]

\* observation variables are not part of a state's identity
View == <<db, udb, now, hid, g>>

Constr ==
  /\ now <= MaxTime
  /\ Len(db.msgs) <= MaxMsgs
  /\ Len(udb.unp) + Len(udb.umb) + Len(udb.ucv) <= MaxUsage
  /\ TLCGet("level") <= MaxDepth
=============================================================================
