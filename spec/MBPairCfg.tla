------------------------------ MODULE MBPairCfg ------------------------------
(***************************************************************************)
(* C18 on the model: two copies of the specification that differ only in   *)
(* the options (listing allowed, usage database, blur interval) take the   *)
(* same inputs.  Invariant: every frame is equal except the payload of     *)
(* `nameplates` answers, and the channel databases are equal.              *)
(***************************************************************************)
EXTENDS Integers, Sequences, FiniteSets, TLC

CONSTANTS Apps, AppOrder, Sides, Conns, Class1, Class2, Class3, LongNames, OtherNames,
          ClientMbox, GenMbox, EXP, PERIOD, Welcome, BadMoods,
          AL1, US1, BL1, AL2, US2, BL2,
          AddMsgs, MoodSet, ClaimNames, PickSet, AdvanceSteps, MaxTime, MaxMsgs, MaxDepth

A == INSTANCE MBCore WITH AllowList <- AL1, UsageOn <- US1, Blur <- BL1
B == INSTANCE MBCore WITH AllowList <- AL2, UsageOn <- US2, Blur <- BL2

VARIABLES L, R, ok
cvars == <<L, R, ok>>

M(ty) == [A!Msg0 EXCEPT !.type = ty]
Msgs(S) ==
  UNION {
    {[M("bind") EXCEPT !.appid = a, !.side = s] : a \in Apps, s \in Sides},
    {M("list"), M("allocate")},
    {[M("claim") EXCEPT !.nameplate = n] : n \in ClaimNames},
    {[M("release") EXCEPT !.nameplate = n] : n \in ClaimNames \cup {A!ABSENT}},
    {[M("open") EXCEPT !.mailbox = i] : i \in A!KnownMbox(S)},
    {[M("add") EXCEPT !.phase = x.phase, !.body = x.body] : x \in AddMsgs},
    {[M("close") EXCEPT !.mailbox = i, !.mood = md] : i \in A!KnownMbox(S) \cup {A!ABSENT}, md \in MoodSet}
  }
CmdEv(S, c, m) ==
  {[A!Ev0 EXCEPT !.k = "Cmd", !.c = c, !.m = m,
                 !.gid = IF A!NeedsGen(S, c, m) THEN A!NextGen(S) ELSE A!ABSENT, !.pick = p]
   : p \in (IF A!NeedsPick(S, c, m) THEN A!AllocChoices(S.db, S.conn[c].app) \cap PickSet ELSE {A!ABSENT})}
Events(S) ==
  LET E(k) == [A!Ev0 EXCEPT !.k = k] IN
  UNION {
    {[E("Connect") EXCEPT !.c = c] : c \in Conns},
    {[E("Drop") EXCEPT !.c = c] : c \in Conns},
    UNION {CmdEv(S, c, m) : c \in {x \in Conns : S.conn[x].up}, m \in Msgs(S)},
    {[E("Advance") EXCEPT !.d = d] : d \in AdvanceSteps}, {E("Sweep")}, {E("Start")}, {E("Stop")}
  }

\* frames with the payload of `nameplates` answers blanked
\* (and the count of durable changes that preceded the frame: a usage database adds commits)
Blank(out) == [k \in DOMAIN out |-> IF out[k].type = "nameplates" THEN [out[k] EXCEPT !.names = {}, !.ci = 0]
                                                                     ELSE [out[k] EXCEPT !.ci = 0]]
\* listing answers are exactly the live nameplates, or empty when disallowed
ListOK(S, e, out, allow) ==
  \A k \in DOMAIN out : out[k].type = "nameplates" =>
     out[k].names = (IF allow THEN A!AppNames(S.db, S.conn[e.c].app) ELSE {})

CInit == L = A!InitState /\ R = B!InitState /\ ok = TRUE
CNext ==
  \E e \in Events(L) :
    /\ A!Enabled(L, e)
    /\ LET rl == A!Step(L, e)  rr == B!Step(R, e) IN
       /\ L' = rl.S /\ R' = rr.S
       /\ ok' = /\ B!Enabled(R, e)
                /\ Blank(rl.out) = Blank(rr.out) /\ rl.err = rr.err
                /\ ListOK(L, e, rl.out, AL1) /\ ListOK(R, e, rr.out, AL2)
CSpec == CInit /\ [][CNext]_cvars

CfgInv == /\ ok
          /\ L.db = R.db /\ L.conn = R.conn /\ L.now = R.now /\ L.nextSweep = R.nextSweep
CConstr == L.now <= MaxTime /\ Len(L.db.msgs) <= MaxMsgs /\ TLCGet("level") <= MaxDepth
CView == <<L, R>>
=============================================================================
